#!/bin/bash
# Re-audits every recorded seed (seeded/*/patch.diff) against the quick check of the property it
# was written for, four at a time in scratch worktrees. Writes seeded/AUDIT.txt.
cd /verif
ls seeded | grep -v AUDIT | grep -v "^_" > /tmp/seedlist.txt
run_slot() {
  SLOT=$1
  awk -v s=$SLOT 'NR % 4 == s' /tmp/seedlist.txt | while read D; do
    PROP=$(python3 -c "import json;print(json.load(open('/verif/seeded/$D/meta.json'))['breaks_property'])")
    AUDIT_SLOT=$SLOT AUDIT_SKIP_TESTS=1 tools/audit.sh seeded/$D/patch.diff $PROP 2>&1 | sed "s/^patch.diff/$D/"
  done > /tmp/seed-audit-$SLOT.txt
}
run_slot 0 & run_slot 1 & run_slot 2 & run_slot 3 & wait
cat /tmp/seed-audit-*.txt | sort > seeded/AUDIT.txt
echo "re-audit of $(wc -l < /tmp/seedlist.txt) seeds: $(grep -c 'exit=1' seeded/AUDIT.txt) reported by the check of their own property" >> seeded/AUDIT.txt
