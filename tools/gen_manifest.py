#!/usr/bin/env python3
"""Regenerates /verif/MANIFEST.json from the table below (kept in one place so that the
manifest stays valid and in step with the checks that exist)."""
import json, subprocess, os
HERE = os.path.dirname(os.path.dirname(os.path.abspath(__file__)))

def hook_commits():
    out = subprocess.run(["git", "-C", "/repo", "log", "--format=%h %s"], capture_output=True, text=True).stdout
    return [l.split()[0] for l in out.splitlines() if l.split(" ", 1)[1].startswith("verif hook")]

SC_NOTE = ("Trusted: the referee (independent rules implementation in the harness, validated at every start against published perft "
           "counts and hand-written rule vignettes) and, for keys, the Zobrist constant table read through its public getters. "
           "Sampling, not proof: a clean batch is evidence over the generated histories only.")

CHECKS = {
 "C01": dict(level="exploration", design="5/C01",
   technique="deterministic simulation family S-C: seeded state-machine walks over referee-legal histories, generator output vs an independent rules referee at every prefix (no schedule in this clause; histories are the quantifier)",
   text="Seeded exploration of legal histories (random/biased games from start, curated, synthesised and rule-template positions, re-entered by FEN); at every position the generated move multiset must equal the referee's legal move set. Exploration is the honest level: the clause is universal over ~10^44 positions and is sampled, with the workload aimed at the rare geometry (castling next to attackers, en-passant pins, promotions in check).",
   note=SC_NOTE),
 "C02": dict(level="exploration", design="5/C02",
   technique="deterministic simulation family S-C: chains of the engine's own generated successors walked next to the referee, field-by-field successor and descriptor oracle",
   text="Every successor of every visited position, successors of special successors two plies deep chained from the engine's own BoardState, and the successors of capture-only generation are compared field by field (placement, side, rights, ep target, king cache, sentinel ring) with the referee's apply(p, m), and the descriptor with m.",
   note=SC_NOTE),
 "C04": dict(level="exploration", design="5/C04",
   technique="deterministic simulation family S-C: the text-move applier, the generator chain and the referee driven through the same histories; invariant after every prefix plus text round trip of every generated move",
   text="The applier (play_out_position/make_move through the H5 wrappers) is stepped next to the generator chain and the referee over every prefix of generated games up to 200 plies; position, hash and generator agreement are checked after each move, and every generated move is printed and replayed. The same clause is observed through the real command loop: simulated sessions of 1-4 position commands (same game again, prefix, continuation, another game, the same move list from a different start, the previous FEN with one field changed, a game of 1030-1400 plies) with the probed board compared against the referee.",
   note=SC_NOTE),
 "C05": dict(level="exploration", design="5/C05",
   technique="deterministic simulation family S-C: incremental key vs key recomputed from scratch after every step of three producers, route-independence over recurring positions, toggle sensitivity",
   text="After every step of the FEN loader, the text applier and the generator chain the incremental key must equal the from-scratch key of the referee position; positions reached twice by different routes must carry the same key; toggling any component must change the model key; in simulated sessions the key of the board held after position and after go is recomputed too.",
   note=SC_NOTE),
 "C13": dict(level="exploration", design="5/C13",
   technique="deterministic simulation family S-C: capture-only generation followed recursively from the engine's own successors (as quiescence does) with the referee position carried alongside",
   text="Capture-only chains up to 6 plies deep from every walk position (and below ordinary successors) are compared node by node with the referee's legal captures and resulting positions.",
   note=SC_NOTE),
 "C03": dict(level="exploration", design="5/C03",
   technique="deterministic simulation family S-A: the whole engine process (I/O thread, search threads, channel, clock, stdin/stdout) under a seeded discrete-event kernel with injected stalls, oversleeps, spawn delays, process pauses; session-model oracle over the recorded history",
   text="Thousands of seeded GUI sessions (positions by FEN and by moves, go with none/zero/negative/timed clocks, consecutive go commands) are executed under a kernel that owns every interleaving of the search thread with the polling I/O thread; for each go on a non-terminal model position the recorded transcript must hold exactly one well-formed bestmove that is referee-legal, and the model advances by the engine's own answers. Sessions include positions whose only move is an en-passant capture or whose every move is a promotion, closed-shuffle positions (the search thread finishes before the deadline), marathon sessions of up to 2300 consecutive go commands after one position, and end of input right behind a timed go. A second pass runs the same check built with overflow checks on. When the engine reads stdin in a thread of its own, outputs are attributed by protocol order (k-th bestmove answers the k-th go).",
   note="Trusted: the seam mirrors std (read_line, mpsc disconnect, panic kills thread, exit); the cost model (c_node per node, 1 us per seam call) stands in for real scheduling, widened by injected delays; the referee. Sampling over schedules x inputs, not proof."),
 "C08": dict(level="exploration", design="5/C08",
   technique="deterministic simulation family S-A with timing faults: bounded-liveness oracle on virtual time relative to the engine's own plan and to the delays the simulator injected; exact hang detection on the channel",
   text="Sessions including checkmated and stalemated positions (by FEN and reached by moves) run under stall/oversleep/spawn-delay/pause faults; every go must be answered (null move when no legal move exists) within plan + 2 poll quanta + injected I/O delay once a move exists, the first move must exist within a small node budget after the deadline, isready must be answered afterwards. A polling loop that can never receive a message is detected exactly, not by timeout. Includes closed-shuffle games (search ends before the deadline), marathon sessions and end of input behind a timed go (the go is still owed its bestmove).",
   note="Bounds are relative to the simulator's cost model and injected delays; nothing is established about absolute wall-clock figures of the real binary."),
 "C09": dict(level="exploration", design="5/C09",
   technique="deterministic simulation family S-A (measured delay vs the engine's own plan on virtual time, fault-free and with timing faults) plus a configuration sweep of the plan against an exact-arithmetic policy model",
   text="(i) for every simulated go on a non-terminal position the virtual go->bestmove delay is at least the plan and at most plan + scheduling slack (+ injected delay); (ii) the plan computed by the real parse_go_command + calculate_time_slice is checked against the statement's inequalities over a systematic sweep of clock/increment/movestogo/side values around the margin and sign boundaries, including independence from the opponent's clock and from the order in which the parameters are written.",
   note="(ii) is arithmetic over configurations (no schedule in it) and is included because the timed clause is only meaningful relative to the plan. Plans too long to simulate are checked in (ii) only."),
 "C16": dict(level="exploration", design="5/C16",
   technique="deterministic simulation family S-A: metamorphic session pairs (fresh engine vs after seeded earlier traffic with timing faults in the prefix), prefix-relation oracle over the recorded improvement sequences",
   text="The same request (position X, go G) is simulated in a fresh engine and after 1-6 items of arbitrary earlier traffic (other games with timed/zero-slice go and possibly still-running search threads, ucinewgame, setoption, noise, shorter/longer versions of X's game, the request itself), optionally repeated; zero-slice replies must be identical, timed replies must agree on the common prefix of (depth, nodes, score, first PV move). Zero-slice probes include the largest clocks for which the time policy still forces a zero slice; a zero-slice request that is searched in one session only is a violation; prefixes contain forced-move positions and consecutive go commands.",
   note="When delays are injected, outputs are attributed to search threads by simulated thread id (a stalled old search may legitimately print late); when none is injected the reply is compared as the GUI sees it (every info line between go and bestmove). Sampling over session histories."),
 "C17": dict(level="fault_enumeration", design="5/C17",
   technique="deterministic simulation family S-A with input-stream faults: noise/whitespace/unknown-token injection compared metamorphically against the clean script, and end-of-input injected at every command boundary of each script (enumerated) plus sampled mid-line offsets",
   text="For each generated timing-free script: a noisy twin must produce the same transcript and probed state; stdin is closed at every command boundary (exhaustive per script) and at sampled mid-line offsets and the process must end (exit event) rather than keep reading; quit must be followed by exit and no output; every isready gets exactly one readyok. Noise includes setoption lines for options the engine lacks and lines that are not valid UTF-8 (read_line -> Err(InvalidData)); the noisy script is also delivered pipelined (nothing waited for) with slowly starting search threads. Flood stage: uci, isready, 30 000 (thorough: also 120 000) blank lines resp. unknown lines, isready, quit, simulated in a child process of the harness under a wall-clock limit; a stack overflow of the engine's thread or a lifecycle violation is reported, anything else is inconclusive (DESIGN 13.12).",
   note="Exhaustive only over the EOF boundaries of the scripts drawn; scripts and noise placement are sampled. Noise does not begin with a known command word (except setoption for unknown options)."),
 "C07": dict(level="fault_enumeration", design="5/C07",
   technique="deterministic simulation family S-B: the real get_best_move under a scripted clock that expires at the k-th query, for every k of each sampled position (crash-point enumeration), compared with a reference run under an unlimited clock",
   text="For each sampled position (half with a game history in the repetition record) the clock is made to expire at every query index k in [0, K] (all k when K <= 1500; otherwise all k <= 300, +-3 around every send/info boundary and 300 sampled). Per k: no panic; boards handed back are a prefix of the unlimited run's (one legal first-in-ordering board when nothing completed); info lines are a prefix; the repetition record is unchanged; no sentinel in any score. Each position is also run with an allowance of 2^63-1 .. u128::MAX ms that the clock never reaches: the reported sequence must be the reference's. Never-reached allowances of ordinary magnitude (30 s ... 24 h) must report the same sequence too. Closed-shuffle roots (tiny trees) are run to the search's own end - all 99 iterations - with sampled expiry points on the way.",
   note="Exhaustive over expiry points only for the positions drawn (and only when K <= 1500); positions are sampled; search depth in simulation is <= 5 on ordinary positions and 99 on closed shuffles. The unlimited-clock reference is itself anchored by C12 and C18."),
 "C10": dict(level="exploration", design="5/C10",
   technique="deterministic simulation families S-C (real position handler vs a multiset model over shuffle-rich histories) and S-B (real search under a scripted clock on roots offering a repetition)",
   text="(i) after the real position handler has replayed histories with up to 100 repetitions the record must hold exactly the occurrence count of every position and nothing else - both by calling the handler directly and in simulated sessions of several position commands through the real command loop; (ii) on roots where a clearly worse mover can step into a position that already occurred 2, 3 or 4 times, every completed depth must report a score >= 0 - by calling the search directly and, observed on stdout only, in simulated sessions where the repetition root follows earlier timed searches (late hand-overs from their threads injected). Roots include perpetual-check cycles in which the mover is far ahead and has a single legal move.",
   note="Counts are compared by the from-scratch key of the referee position; zero-count entries are treated as absent."),
 "C11": dict(level="exploration", design="5/C11",
   technique="deterministic simulation family S-B: real search to depth 3 under a scripted clock on generated near-mate positions; oracle = independent AND/OR mate solver on the referee",
   text="Small positions near mate/stalemate are classified by the solver; a mate in one must be in hand from the end of iteration 1 on, a move into mate in one must not be in hand from the end of iteration 2 on when a safe move exists, every positive mate announcement and every final negative one must be true (verified up to mate in 3). Roots include an enumerated list of mate-in-one positions for every material class of at most four men, positions with 132+ legal moves whose mates come late in the move list, and positions whose only mate in one is a castling move.",
   note="Mate claims beyond the solver bound are counted as unverified, never as violations. 'mated in N' on an interim line (best line so far) is not judged; the quantifier is over completed depths."),
 "C12": dict(level="exploration", design="5/C12",
   technique="deterministic simulation family S-B: real search under an unlimited scripted clock vs a plain full-window negamax written in the harness over the engine's own generator and evaluation",
   text="For depths 1-3 of each sampled position (with and without history) the engine's final score equals the exact minimax value computed without any pruning or ordering, and the selected move attains it.",
   note="The reference shares generate_moves/get_evaluation/is_check with the engine on purpose (the property is about its own evaluation); positions whose un-pruned reference exceeds 1.5M nodes are skipped and counted."),
 "C15": dict(level="exploration", design="5/C15",
   technique="input-corruption faults on the engine's one input stream (FEN text): seeded mutation of referee-printed FENs delivered to the loader, to the real position handler and to the real binary's command line; referee strict parser as the acceptance oracle",
   text="Legal FENs with small and large counters must load field for field; ~25 corrupted variants per FEN plus every truncation/deletion/substitution point of two fixed FENs must never panic inside the loader; a sample goes through the real binary, which must exit 0 with a message. A second pass runs with overflow checks on (counters at the type limits).",
   note="Weakest fit for this family (no schedule in it); kept because the failure is a crash of the running session. Strings are valid Unicode without NUL."),
 "C18": dict(level="fault_enumeration", design="5/C18",
   technique="deterministic simulation family S-B: every info line emitted at every injected expiry point of the C07 enumeration is checked against a strict grammar and score-bound oracle",
   text="Same per-position expiry enumeration as C07; each line must match the grammar, depth >= 1 and non-decreasing, mate != 0, |cp| <= 100000 and never the sentinel, first PV move referee-legal, strictly increasing scores within a depth. In addition the stream view: in fault-free simulated sessions every info line between a go and its bestmove must be a line about that go's position (catches lines of an earlier, orphaned search).",
   note="Inherits C07's per-position exhaustiveness; the PV omits promotion letters (not judged)."),
}

NOT_APPLICABLE = [
 {"property_id": "C06", "reason": "pure predicate over arbitrary placements (legal or not w.r.t. whose turn it is); no schedule, clock, fault, I/O or history for a simulator to control - deciding it would be input generation in simulator vocabulary (DESIGN.md section 6)"},
 {"property_id": "C14", "reason": "pure function of (placement, side to move) quantified over all placements; no state, time, I/O or interleaving (DESIGN.md section 6)"},
]
PENDING = []  # filled below with properties not yet claimed

ALL = ["C%02d" % i for i in range(1, 19)]

def main():
    checks = []
    for pid in sorted(CHECKS):
        c = CHECKS[pid]
        checks.append({
            "property_id": pid,
            "quick_cmd": f"./bin/check {pid} quick",
            "thorough_cmd": f"./bin/check {pid} thorough",
            "evidence_file": f"/verif/evidence/{pid}.json",
            "replay_cmd_template": "./sim/target/release/wsim replay {path}",
            "engine": "wsim",
            "level_claimed": {"category": c["level"], "text": c["text"], "design_ref": c["design"]},
            "level_note": c["note"],
            "technique": c["technique"],
        })
    na = list(NOT_APPLICABLE)
    for pid in ALL:
        if pid not in CHECKS and not any(x["property_id"] == pid for x in na):
            na.append({"property_id": pid, "reason": "not claimed yet: check under construction (see DESIGN.md section 5); no verdict is given for it"})
    m = {
        "version": 1,
        "setup_cmd": "./bin/setup",
        "hooks": {
            "guard": "walleye_verif",
            "enable": "cfg flag --cfg walleye_verif, emitted by /verif/sim/build.rs; the harness crate /verif/sim mounts /repo/src/*.rs with #[path], so every check compiles /repo's current working tree with the hooks on",
            "baseline_off_cmd": "cd /repo && cargo test --workspace --no-fail-fast --offline",
            "source_commits": hook_commits(),
            "add_only": True,
        },
        "engines": [{"name": "wsim", "path": "/verif/sim", "serves_properties": sorted(CHECKS), "kind_free_text": "deterministic simulator: DES kernel with parked OS threads + virtual clock + scripted stdin/stdout (S-A), scripted-expiry clock around get_best_move (S-B), state-machine walks vs referee (S-C)"}],
        "checks": checks,
        "notes": "See DESIGN.md. Exit 2 from a check is a harness error, never a verdict. known_findings.json lists recorded and fixed defects. bin/check runs each check with the harness in the release profile and, for C04 C09 C10 C15 C17 (both tiers) and every check (thorough tier), a second time built with overflow checks and debug assertions (DESIGN.md section 10, Two arithmetics); both passes write into the same evidence file. When the harness does not build against the tree because engine::get_best_move changed its signature, bin/check falls back to a build without the S-B scenario family: session checks run, S-B checks exit 2.",
        "not_applicable": na,
    }
    json.dump(m, open(os.path.join(HERE, "MANIFEST.json"), "w"), indent=1)
    print("wrote MANIFEST.json with", len(checks), "checks")

if __name__ == "__main__":
    main()
