#!/usr/bin/env python3
"""usage: save_seed.py <seed-dir-name> <property> <worktree> <needs> <caught_by> <ran...>
Copies patch.diff, the demonstration and notes from a confirmed scratch worktree into
/verif/seeded/<name>/ and writes meta.json."""
import sys, os, shutil, json
name, prop, wt, needs, caught = sys.argv[1:6]
ran = sys.argv[6:]
dst = f"/verif/seeded/{name}"
os.makedirs(dst, exist_ok=True)
src = os.path.join(wt, "seed_out")
for f in os.listdir(src):
    p = os.path.join(src, f)
    if os.path.isfile(p) and os.path.getsize(p) < 2_000_000:
        shutil.copy(p, os.path.join(dst, f))
json.dump({"breaks_property": prop, "needs_to_manifest": needs, "caught_by_checks": caught.split(","), "confirmed": ran,
           "origin": "independent sub-agent given only the property text and a scratch worktree" + (" (second round: told the first round's idea and asked for a different mechanism)" if name.endswith("b") else " (third round: told how the first two rounds' changes manifested and asked for a third mechanism)" if name.endswith("c") else " (fourth round: given a direction - an area of the code not yet attacked - plus the list of how all earlier changes manifested)" if name.endswith("d") else " (fifth round: asked for cooperating edits that look like a refactor or an optimisation and manifest only in a rare situation; given the list of how all earlier changes manifested)" if name.endswith("e") else " (sixth round: the change had to live in concurrency, timing, I/O or lifecycle code, or in state that only matters deep into a search or late in a long session)" if name.endswith("f") else " (seventh round: scale and extremes - the violation had to need something large, long, deep or at a limit)" if name.endswith("g") else " (eighth round: asked for a dimension of the input or schedule that a test generator probably does not vary - combinations of rare features, order of parameters and commands, parities, one-colour / one-file asymmetries, state carried between searches)" if name.endswith("h") else " (ninth round: same direction as the eighth, for the other eight properties)" if name.endswith("i") else "")}, open(os.path.join(dst, "meta.json"), "w"), indent=1)
print("saved", dst, os.listdir(dst))
