#!/usr/bin/env python3
"""Generates the sensitivity catalogue /verif/mutants/m_*.patch: deliberate property-breaking
edits of /repo/src (each a realistic slip), as unified diffs against /repo HEAD. The edits are
made on a scratch copy of the file text, never on /repo itself. Each entry lists the checks
expected to report it. tools/audit_all.sh applies them one by one."""
import subprocess, os, json, tempfile, shutil
REPO = "/repo"
OUT = "/verif/mutants"

M = []
def mut(name, file, old, new, checks, count=1):
    M.append(dict(name=name, file=file, old=old, new=new, checks=checks, count=count))

MG = "src/move_generation.rs"; EN = "src/engine.rs"; UCI = "src/uci.rs"; TC = "src/time_control.rs"; BD = "src/board.rs"; DT = "src/draw_table.rs"

# ---- C01 / C02 / C13 (generator)
mut("c01_ep_skips_check_test", MG, "            if !is_check(&new_board, board.to_move) {\n                new_moves.push(new_board);\n            }", "            new_moves.push(new_board);", ["C01"])
mut("c01_qs_castle_needs_b_file_safe", MG, "    if is_check_cords(board, White, Point(BOARD_END - 1, BOARD_START + 3))\n        || is_check_cords(board, White, Point(BOARD_END - 1, BOARD_START + 2))", "    if is_check_cords(board, White, Point(BOARD_END - 1, BOARD_START + 3))\n        || is_check_cords(board, White, Point(BOARD_END - 1, BOARD_START + 2))\n        || is_check_cords(board, White, Point(BOARD_END - 1, BOARD_START + 1))", ["C01"])
mut("c01_black_ks_castle_skips_f8_attack", MG, "    if is_check_cords(board, Black, Point(BOARD_START, BOARD_END - 3))\n        || is_check_cords(board, Black, Point(BOARD_START, BOARD_END - 2))", "    if is_check_cords(board, Black, Point(BOARD_START, BOARD_END - 2))", ["C01"])
mut("c01_ep_only_left", MG, "        if left_cap == double_moved_pawn {\n            return Some(left_cap);\n        } else if right_cap == double_moved_pawn {\n            return Some(right_cap);\n        }", "        if left_cap == double_moved_pawn {\n            return Some(left_cap);\n        } else if right_cap == double_moved_pawn && piece.color == White {\n            return Some(right_cap);\n        }", ["C01", "C13"])
mut("c02_promo_flag_not_reset", MG, "        let mut new_board = board.clone();\n        new_board.pawn_promotion = None;\n        new_board.swap_color(zobrist_hasher);\n\n        // update king location", "        let mut new_board = board.clone();\n        new_board.swap_color(zobrist_hasher);\n\n        // update king location", ["C02", "C01"])
mut("c02_rook_capture_keeps_black_ks_right", MG, "        } else if mov.0 == BOARD_START && mov.1 == BOARD_END - 1 {\n            new_board.take_away_castling_rights(CastlingType::BlackKingSide, zobrist_hasher);\n        }\n\n        // checks if the pawn", "        }\n\n        // checks if the pawn", ["C02"])
mut("c02_castle_keeps_ep_target", MG, "        new_board.pawn_promotion = None;\n        new_board.swap_color(zobrist_hasher);\n        new_board.unset_pawn_double_move(zobrist_hasher);\n        new_board.take_away_castling_rights(CastlingType::BlackKingSide, zobrist_hasher);\n        new_board.take_away_castling_rights(CastlingType::BlackQueenSide, zobrist_hasher);\n        new_board.black_king_location = Point(BOARD_START, BOARD_START + 2);", "        new_board.pawn_promotion = None;\n        new_board.swap_color(zobrist_hasher);\n        new_board.take_away_castling_rights(CastlingType::BlackKingSide, zobrist_hasher);\n        new_board.take_away_castling_rights(CastlingType::BlackQueenSide, zobrist_hasher);\n        new_board.black_king_location = Point(BOARD_START, BOARD_START + 2);", ["C02"])
mut("c02_white_qs_castle_keeps_ks_right", MG, "        new_board.take_away_castling_rights(CastlingType::WhiteKingSide, zobrist_hasher);\n        new_board.take_away_castling_rights(CastlingType::WhiteQueenSide, zobrist_hasher);\n        new_board.white_king_location = Point(BOARD_END - 1, BOARD_START + 2);", "        new_board.take_away_castling_rights(CastlingType::WhiteQueenSide, zobrist_hasher);\n        new_board.white_king_location = Point(BOARD_END - 1, BOARD_START + 2);", ["C02"])
mut("c13_no_ep_in_capture_only", MG, "    if board.pawn_double_move.is_some() && kind == Pawn {", "    if board.pawn_double_move.is_some() && kind == Pawn && move_generation_mode == MoveGenerationMode::AllMoves {", ["C13"])
mut("c13_capture_only_queen_promo_only", MG, "        } else if mov.0 == BOARD_END - 1 && color == Black && kind == Pawn {\n            promote_pawn(", "        } else if mov.0 == BOARD_END - 1 && color == Black && kind == Pawn && move_generation_mode == MoveGenerationMode::AllMoves {\n            promote_pawn(", ["C13"])

# ---- C04 / C05 (applier, keys)
mut("c04_castle_text_without_king_test", UCI, "    if player_move == WHITE_KING_SIDE_CASTLE_STRING\n        && board.board[end_pair.0][end_pair.1] == Piece::king(White)\n    {", "    if player_move == WHITE_KING_SIDE_CASTLE_STRING {", ["C04"])
mut("c04_h1_right_only_when_moving_from", UCI, "    if player_move.contains(\"h1\") {", "    if player_move.starts_with(\"h1\") {", ["C04"])
mut("c04_promo_n_b_swapped", UCI, "            'n' => Knight,\n            'b' => Bishop,", "            'n' => Bishop,\n            'b' => Knight,", ["C04"])
mut("c04_applier_forgets_ep_clear", UCI, "    board.unset_pawn_double_move(zobrist_hasher);\n\n    if let Square::Full(piece) = board.board[start_pair.0][start_pair.1] {", "    if let Square::Full(piece) = board.board[start_pair.0][start_pair.1] {\n        if piece.kind != King {\n            board.unset_pawn_double_move(zobrist_hasher);\n        }", ["C04", "C05"])
mut("c05_underpromotion_key_uses_queen", MG, "        new_board.zobrist_key ^= zobrist_hasher.get_val_for_piece(promotion_piece, target)\n            ^ zobrist_hasher.get_val_for_piece(Piece::pawn(color), target);", "        new_board.zobrist_key ^= zobrist_hasher.get_val_for_piece(Piece::queen(color), target)\n            ^ zobrist_hasher.get_val_for_piece(Piece::pawn(color), target);", ["C05"])
mut("c05_fen_ep_key_uses_row", BD, "                zobrist_key ^= zobrist_hasher.get_val_for_en_passant(point.1);", "                zobrist_key ^= zobrist_hasher.get_val_for_en_passant(point.0);", ["C05", "C15"])
mut("c05_applier_ep_capture_key_wrong_colour", UCI, "                    Piece::pawn(board.to_move.opposite()),\n                    Point(start_pair.0, end_pair.1),", "                    Piece::pawn(board.to_move),\n                    Point(start_pair.0, end_pair.1),", ["C05", "C04"])
mut("c05_gen_ep_capture_key_missing_black", MG, "                new_board.board[mov.0 - 1][mov.1] = Square::Empty;\n                new_board.zobrist_key ^=\n                    zobrist_hasher.get_val_for_piece(Piece::pawn(White), Point(mov.0 - 1, mov.1));", "                new_board.board[mov.0 - 1][mov.1] = Square::Empty;", ["C05"])

# ---- C03 / C08 / C09 / C16 / C17 (session)
mut("c03_loop_exits_on_first_move_or_deadline", UCI, "    while !out_of_time(start, time_to_move_ms) || best_move.is_none() {", "    while !out_of_time(start, time_to_move_ms) && best_move.is_none() {", ["C03", "C09", "C08"])
mut("c03_bestmove_promotion_always_q", UCI, "            pawn_promotion.kind.alg()\n        ));", "            if pawn_promotion.kind == King { \"k\" } else { \"q\" }\n        ));", ["C03"])
mut("c08_poll_sleep_25ms", UCI, "            thread::sleep(Duration::from_millis(1));\n        }\n    }\n    let board = best_move.unwrap();", "            thread::sleep(Duration::from_millis(25));\n        }\n    }\n    let board = best_move.unwrap();", ["C08", "C09"])
mut("c08_terminal_fix_only_for_mate", UCI, "    if generate_moves(board, MoveGenerationMode::AllMoves, &zobrist_hasher).is_empty() {", "    if generate_moves(board, MoveGenerationMode::AllMoves, &zobrist_hasher).is_empty() && is_check(board, board.to_move) {", ["C08"])
mut("c08_isready_ignored_after_go", UCI, "            \"isready\" => send_to_gui(\"readyok\"),", "            \"isready\" => {\n                if board.last_move.is_none() || board.pawn_promotion.is_none() {\n                    send_to_gui(\"readyok\")\n                }\n            }", ["C08", "C17"])
mut("c09_colours_swapped", TC, "        let is_white = color == PieceColor::White;", "        let is_white = color == PieceColor::Black;", ["C09"])
mut("c09_usage_095", TC, "const MAX_USAGE: f64 = 0.8;", "const MAX_USAGE: f64 = 0.95;", ["C09"])
mut("c09_safeguard_10", TC, "pub const SAFEGUARD: f64 = 100.0;", "pub const SAFEGUARD: f64 = 10.0;", ["C09"])
mut("c09_binc_parsed_into_winc", UCI, "            \"binc\" => {\n                gt.binc = commands[i + 1].parse().unwrap();", "            \"binc\" => {\n                gt.winc = commands[i + 1].parse().unwrap();", ["C09"])
mut("c09_slice_ignores_movestogo_1", TC, "        let mtg = self.movestogo.unwrap_or(GAME_LENGTH) as f64;", "        let mtg = self.movestogo.unwrap_or(GAME_LENGTH).max(2) as f64;", [])  # within the statement (plan only shrinks): must NOT alarm
mut("c10_position_does_not_clear", UCI, "                draw_table.clear();\n", "", ["C10", "C16"])
mut("c10_start_position_not_recorded", UCI, "    draw_table.table.insert(board.zobrist_key, 1);\n", "", ["C10"])
mut("c10_record_before_move", UCI, "            make_move(&mut board, *mov, zobrist_hasher);\n            draw_table.add_board_to_draw_table(&board);", "            draw_table.add_board_to_draw_table(&board);\n            make_move(&mut board, *mov, zobrist_hasher);", ["C10"])
mut("c16_ucinewgame_forgets_nothing_but_go_keeps_table", UCI, "    let mut draw_clone = draw_table.clone();\n    thread::spawn(move || get_best_move(&clone, &mut draw_clone, start, time_to_move_ms, &tx));\n    // keep looking", "    draw_table.add_board_to_draw_table(&clone);\n    let mut draw_clone = draw_table.clone();\n    thread::spawn(move || get_best_move(&clone, &mut draw_clone, start, time_to_move_ms, &tx));\n    // keep looking", ["C16", "C10"])
mut("c17_empty_line_quits", UCI, "            \"quit\" => process::exit(1),", "            \"quit\" | \"\" => process::exit(1),", ["C17"])
mut("c17_unknown_go_token_swallows_next", UCI, "            _ => (),\n        }\n        i += 1;", "            _ => i += 1,\n        }\n        i += 1;", ["C17", "C09"])
mut("c17_isready_needs_exact_buffer", UCI, "        match commands[0] {\n            \"isready\" =>", "        match if buffer.ends_with(' ') { \"\" } else { commands[0] } {\n            \"isready\" =>", [])  # clean_input trims: unreachable, must NOT alarm
mut("c17_quit_prints_bye", UCI, "            \"quit\" => process::exit(1),", "            \"quit\" => {\n                send_to_gui(\"info string bye\");\n                process::exit(1)\n            }", ["C17"])

# ---- C07 / C18 / C12 / C11 (search)
mut("c07_accepts_aborted_evaluation", EN, "            if evaluation > alpha && !out_of_time(start, time_to_move_ms) {", "            if evaluation > alpha {", ["C07", "C18"])
mut("c07_fallback_sends_last_move", EN, "                    tx.send(moves[0].clone()).unwrap();", "                    tx.send(moves[moves.len() - 1].clone()).unwrap();", ["C07"])
mut("c07_cutoff_forgets_record_removal", EN, "                if mov.order_heuristic == 0 {\n                    search_info.insert_killer_move(ply_from_root, mov);\n                }\n                draw_table.remove_board_from_draw_table(board);\n                return score;", "                if mov.order_heuristic == 0 {\n                    search_info.insert_killer_move(ply_from_root, mov);\n                }\n                return score;", ["C07", "C12"])
mut("c07_timeout_path_forgets_nothing_but_first_move_cut", EN, "    if best_score > alpha {\n        if best_score >= beta {\n            draw_table.remove_board_from_draw_table(board);\n            return best_score;\n        }", "    if best_score > alpha {\n        if best_score >= beta {\n            return best_score;\n        }", ["C07", "C12"])
mut("c07_no_fallback", EN, "                if best_move.is_none() {\n                    tx.send(moves[0].clone()).unwrap();\n                }\n                return;", "                return;", ["C07", "C08", "C03"])
mut("c18_info_before_acceptance", EN, "            search_info.insert_into_cur_line(ply_from_root, mov);\n\n            if evaluation > alpha && !out_of_time(start, time_to_move_ms) {", "            search_info.insert_into_cur_line(ply_from_root, mov);\n            if evaluation > alpha {\n                search_info.set_principle_variation();\n                send_search_info(&search_info, cur_depth, evaluation, start);\n            }\n\n            if evaluation > alpha && !out_of_time(start, time_to_move_ms) {", ["C18", "C07"])
mut("c18_depth_reported_minus_one", EN, "                send_search_info(&search_info, cur_depth, evaluation, start);", "                send_search_info(&search_info, cur_depth - 1, evaluation, start);", ["C18"])
mut("c11_mate_distance_off_by_one", EN, "            (MATE_SCORE - eval + 1) / 2,", "            (MATE_SCORE - eval) / 2,", ["C18", "C11", "C12"])
mut("c11_stalemate_scored_as_mate", EN, "        if is_check(board, board.to_move) {\n            // checkmate\n            draw_table.remove_board_from_draw_table(board);\n            let mate_score = MATE_SCORE - ply_from_root;\n            return -mate_score;\n        }\n        // stalemate\n        draw_table.remove_board_from_draw_table(board);\n        return 0;", "        // checkmate\n        draw_table.remove_board_from_draw_table(board);\n        let mate_score = MATE_SCORE - ply_from_root;\n        return -mate_score;", ["C11", "C12"])
mut("c11_mate_score_ignores_ply", EN, "            let mate_score = MATE_SCORE - ply_from_root;", "            let mate_score = MATE_SCORE - 1;", ["C11", "C12"])
mut("c12_lazy_research", EN, "        if score > alpha && score < beta {\n            // got a result outside our window", "        if score > alpha + 30 && score < beta {\n            // got a result outside our window", ["C12"])
mut("c12_no_check_extension", EN, "        if is_check(board, board.to_move) {\n            depth += 1;\n        } else {", "        if false {\n            depth += 1;\n        } else {", ["C12", "C11"])
mut("c12_quiesce_cannot_stand_pat", EN, "    if alpha < stand_pat {\n        alpha = stand_pat;\n    }", "", ["C12"])
mut("c12_null_move_at_depth_2", EN, "    if allow_null && depth >= 3 && !is_check(board, board.to_move) {", "    if allow_null && depth >= 2 && !is_check(board, board.to_move) {", ["C12"])
mut("c12_draw_check_after_depth0", EN, "    // check for draw\n    if draw_table.is_threefold_repetition(board) {\n        return 0;\n    }\n\n    draw_table.add_board_to_draw_table(board);\n\n    if depth == 0 {", "    draw_table.add_board_to_draw_table(board);\n\n    if depth == 0 {", ["C12", "C10"])

mut("c07_null_move_prune_forgets_record_removal", EN, "        if eval >= beta {\n            // null move prune\n            draw_table.remove_board_from_draw_table(board);\n            return beta;\n        }", "        if eval >= beta {\n            // null move prune\n            return beta;\n        }", ["C07"])
mut("c07_null_move_keeps_side_key", EN, "        let mut b = board.clone();\n        b.to_move = board.to_move.opposite();", "        let mut b = board.clone();\n        b.swap_color(zobrist_hasher);", [])  # arguably a fix (the null-move child gets its own key); must not alarm

# ---- C15 (loader)
mut("c15_unicode_digits", BD, "                if square.is_digit(10) {", "                if square.is_numeric() {", ["C15"])
mut("c15_skip_bound_off_by_one", BD, "                    if square_skip_count + col > BOARD_END {", "                    if square_skip_count + col > BOARD_END + 1 {", ["C15"])
mut("c15_castling_q_means_both", BD, "            black_queen_side_castle: castling_privileges.find('q') != None,", "            black_queen_side_castle: castling_privileges.to_lowercase().find('q') != None,", ["C15"])
mut("c15_halfmove_u16", BD, "        let half_move_clock = fen_config[4].parse::<u32>();", "        let half_move_clock = fen_config[4].parse::<u16>();", [])  # 65535 halfmoves is not a valid counter: must NOT alarm


# ---- benign refactors: the properties still hold, no check may alarm (and every one must still build under the harness)
ZB = "src/zobrist.rs"
mut("benign_zobrist_seed_changed", ZB, "seed_from_u64(6 * 10 * 1837)", "seed_from_u64(20261004)", [])
mut("benign_stable_sort", EN, "moves.sort_unstable_by_key(|k| Reverse(k.order_heuristic));\n    for mov in moves {", "moves.sort_by_key(|k| Reverse(k.order_heuristic));\n    for mov in moves {", [])
mut("benign_poll_every_500us", UCI, "            thread::sleep(Duration::from_millis(1));\n        }\n    }\n    let board = best_move.unwrap();", "            thread::sleep(Duration::from_micros(500));\n        }\n    }\n    let board = best_move.unwrap();", [])
mut("benign_drain_channel_each_poll", UCI, "        if let Ok(b) = rx.try_recv() {\n            best_move = Some(b);\n        } else {", "        let mut got = false;\n        while let Ok(b) = rx.try_recv() {\n            best_move = Some(b);\n            got = true;\n        }\n        if !got {", [])
mut("benign_null_move_none", UCI, "        send_to_gui(\"bestmove 0000\");", "        send_to_gui(\"bestmove (none)\");", [])
mut("benign_draw_table_btreemap", DT, "use std::collections::HashMap;", "use std::collections::BTreeMap as HashMap;", [])
mut("benign_recv_timeout_poll", UCI, "        if let Ok(b) = rx.try_recv() {\n            best_move = Some(b);\n        } else {\n            thread::sleep(Duration::from_millis(1));\n        }", "        if let Ok(b) = rx.recv_timeout(Duration::from_millis(1)) {\n            best_move = Some(b);\n        }", [])
mut("benign_deadline_arithmetic", "src/utils.rs", "    Instant::now().duration_since(start).as_millis() >= time_to_move_ms", "    match u64::try_from(time_to_move_ms) {\n        Ok(ms) => Instant::now() >= start + std::time::Duration::from_millis(ms),\n        Err(_) => false,\n    }", [])
mut("benign_generation_order_by_file", MG, "    for i in BOARD_START..BOARD_END {\n        for j in BOARD_START..BOARD_END {\n            if let Square::Full(piece) = board.board[i][j] {\n                if piece.color == board.to_move {\n                    generate_moves_for_piece(", "    for j in BOARD_START..BOARD_END {\n        for i in BOARD_START..BOARD_END {\n            if let Square::Full(piece) = board.board[i][j] {\n                if piece.color == board.to_move {\n                    generate_moves_for_piece(", [])
# benign_println_via_write (writeln!(io::stdout(), ..) + the Write import) is kept as a hand-made patch: it edits two sites

def main():
    os.makedirs(OUT, exist_ok=True)
    for f in os.listdir(OUT):
        if f.startswith("m_"):
            os.remove(os.path.join(OUT, f))
    index = []
    for m in M:
        src = open(os.path.join(REPO, m["file"])).read()
        if src.count(m["old"]) != m["count"]:
            print("SKIP (anchor count %d): %s" % (src.count(m["old"]), m["name"]))
            continue
        new = src.replace(m["old"], m["new"])
        tmp = tempfile.mkdtemp()
        a = os.path.join(tmp, "a", m["file"]); b = os.path.join(tmp, "b", m["file"])
        os.makedirs(os.path.dirname(a)); os.makedirs(os.path.dirname(b))
        open(a, "w").write(src); open(b, "w").write(new)
        d = subprocess.run(["diff", "-u", "a/" + m["file"], "b/" + m["file"]], cwd=tmp, capture_output=True, text=True).stdout
        shutil.rmtree(tmp)
        path = os.path.join(OUT, "m_%s.patch" % m["name"])
        open(path, "w").write(d)
        index.append({"patch": os.path.basename(path), "expected_checks": m["checks"]})
    json.dump(index, open(os.path.join(OUT, "index.json"), "w"), indent=1)
    print("wrote", len(index), "mutants")

if __name__ == "__main__":
    main()
