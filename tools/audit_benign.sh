#!/bin/bash
# Semantics-preserving rewrites (hand-written mutants/m_benign_*.patch and the agent-written
# mutants/benign-agents/*.diff) against ALL 16 quick checks, four at a time in scratch worktrees.
# None may alarm. Writes mutants/AUDIT-benign-all.txt.
cd /verif
ls mutants/m_benign_*.patch mutants/benign-agents/*.diff | grep -v zobrist_seed_changed > /tmp/benign-all-list.txt
run_slot() {
  SLOT=$1
  awk -v s=$SLOT 'NR % 4 == s' /tmp/benign-all-list.txt | while read P; do
    echo "## $P"
    AUDIT_SLOT=$SLOT AUDIT_SKIP_TESTS=${AUDIT_SKIP_TESTS:-0} tools/audit.sh $P C01 C02 C03 C04 C05 C07 C08 C09 C10 C11 C12 C13 C15 C16 C17 C18 2>&1
  done > /tmp/benign-all-$SLOT.txt
}
run_slot 0 & run_slot 1 & run_slot 2 & run_slot 3 & wait
(for s in 0 1 2 3; do cat /tmp/benign-all-$s.txt; done) > mutants/AUDIT-benign-all.txt
echo "runs: $(grep -c 'exit=' mutants/AUDIT-benign-all.txt)  silent: $(grep -c 'exit=0' mutants/AUDIT-benign-all.txt)  alarms: $(grep -c 'exit=1' mutants/AUDIT-benign-all.txt)  harness errors: $(grep -c 'exit=2' mutants/AUDIT-benign-all.txt)" >> mutants/AUDIT-benign-all.txt
