#!/bin/bash
cd /verif
ls mutants/benign-agents/*.diff > /tmp/benign2-list.txt
run_slot() {
  SLOT=$1
  awk -v s=$SLOT 'NR % 4 == s' /tmp/benign2-list.txt | while read P; do
    echo "## $P"
    AUDIT_SLOT=$SLOT tools/audit.sh $P C01 C02 C03 C04 C05 C07 C08 C09 C10 C11 C12 C13 C15 C16 C17 C18 2>&1
  done > /tmp/benign2-$SLOT.txt
}
run_slot 0 & run_slot 1 & run_slot 2 & run_slot 3 & wait
echo DONE > /tmp/benign2-done; (for s in 0 1 2 3; do cat /tmp/benign2-$s.txt; done) > mutants/AUDIT-benign-agents.txt
