#!/bin/bash
# usage: tools/confirm_seed.sh <id|worktree-dir> <demo command...>
# Confirms a seeded breakage in its scratch worktree (/tmp/seed-<id> or the given directory):
# patch applies to a clean HEAD, 107 baseline tests pass with it, the demo fails with it and
# passes without it.
ID="$1"; shift
case "$ID" in /*) WT="$ID"; ID=$(basename "$WT");; *) WT=/tmp/seed-$ID;; esac
cd $WT || exit 2
P=$WT/seed_out/patch.diff
git -C /repo apply --check "$P" || { echo "patch does not apply to /repo HEAD"; exit 2; }
if ! git apply --check -R "$P" 2>/dev/null; then git checkout -- src; git apply "$P" || exit 2; fi
echo "== with change: cargo test"
cargo test --offline 2>&1 | grep -E "^test result" | head -1
cargo build --offline >/dev/null 2>&1
echo "== with change: demo"
( "$@" ) > /tmp/confirm-$ID-with.log 2>&1; echo "demo exit (with change) = $?"; tail -3 /tmp/confirm-$ID-with.log
git apply -R "$P"
cargo build --offline >/dev/null 2>&1
echo "== without change: demo"
( "$@" ) > /tmp/confirm-$ID-without.log 2>&1; echo "demo exit (without change) = $?"; tail -3 /tmp/confirm-$ID-without.log
git apply "$P"
