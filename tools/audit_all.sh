#!/bin/bash
# Runs the whole sensitivity catalogue: every /verif/mutants/*.patch listed in index.json plus
# the revert-* patches, each against the checks expected to catch it. Writes mutants/AUDIT.txt.
cd /verif
OUT=mutants/AUDIT.txt
: > $OUT
python3 - <<'PY' > /tmp/audit_plan.txt
import json,os,re
idx=json.load(open('/verif/mutants/index.json'))
for e in idx:
    print(e['patch'], ' '.join(e['expected_checks']) if e['expected_checks'] else 'NONE')
rev={'9bab1bf':'C01','e465f01':'C02 C01 C03','37ff623':'C05 C04','6daeb27':'C13','92c92c9':'C08','b46fea0':'C08','6bd3e41':'C09','830a23c':'C17','9cfb9d8':'C11','844916c':'C10','1d2619e':'C15','c8de8ae':'C15','94a4b9f':'C17','b938d4a':'C07'}
for f in sorted(os.listdir('/verif/mutants')):
    m=re.match(r'revert-([0-9a-f]+)-',f)
    if m: print(f, rev[m.group(1)])
PY
while read -r PATCH CHECKS; do
  case "$PATCH" in m_benign_*|*.orig-before-*) continue;; esac   # benign rewrites: tools/audit_benign.sh
  if [ "$CHECKS" = "NONE" ]; then
    # a change that stays within the statement: run the nearest checks, none may alarm
    case "$PATCH" in *c09*) CHECKS="C09";; *c17*) CHECKS="C17";; *c15*) CHECKS="C15";; esac
    echo "## $PATCH (must NOT alarm)" >> $OUT
  else
    echo "## $PATCH" >> $OUT
  fi
  tools/audit.sh /verif/mutants/$PATCH $CHECKS >> $OUT 2>&1
done < /tmp/audit_plan.txt
echo DONE >> $OUT
