#!/bin/bash
# usage: tools/audit.sh <patch> <check-id>...
# Applies a property-breaking patch to /repo, confirms it compiles and passes the 107 baseline
# tests (guard off), runs the named quick checks against it, and reverts /repo.
# Output: one line per check: <patch> <id> exit=<code> <first signature>
set -u
PATCH="$1"; shift
cd /repo || exit 2
if [ -n "$(git status --porcelain -- src Cargo.toml)" ]; then echo "audit: /repo is not clean" >&2; exit 2; fi
if ! git apply "$PATCH"; then echo "audit: patch does not apply: $PATCH" >&2; exit 2; fi
trap 'git -C /repo checkout -- . ' EXIT
if [ "${AUDIT_SKIP_TESTS:-0}" != "1" ]; then
  T=$(cargo test --offline 2>&1 | grep -E "^test result" | head -1)
  echo "baseline: $T"
  case "$T" in *"107 passed; 0 failed"*) ;; *) echo "audit: baseline tests do not pass with $PATCH (not a realistic change)"; exit 3;; esac
fi
for ID in "$@"; do
  OUT=$(/verif/bin/check "$ID" ${AUDIT_TIER:-quick} 2>&1); CODE=$?
  SIG=$(echo "$OUT" | grep -m1 "signature:" | sed 's/^ *signature: //')
  echo "$(basename "$PATCH") $ID exit=$CODE ${SIG}"
done
