#!/bin/bash
# usage: tools/audit.sh <patch> <check-id>...      (env: AUDIT_SLOT=0..7, AUDIT_SKIP_TESTS=1, AUDIT_TIER)
# Applies a property-breaking patch to a SCRATCH worktree of /repo (never to /repo itself),
# confirms that it compiles and passes the 107 baseline tests with the guard off, runs the
# named checks against the scratch copy (VERIF_REPO) and removes the worktree.
# Output: one line per check: <patch> <id> exit=<code> <first signature>
set -u
PATCH="$(readlink -f "$1")"; shift
SLOT="${AUDIT_SLOT:-0}"
WT=/tmp/audit-wt-$SLOT
ROOT=/tmp/audit-root-$SLOT
git -C /repo worktree remove --force $WT >/dev/null 2>&1; rm -rf $WT $ROOT
git -C /repo worktree add -q --detach $WT HEAD || exit 2
trap 'git -C /repo worktree remove --force '$WT' >/dev/null 2>&1; rm -rf '$ROOT EXIT
mkdir -p $ROOT; cp /verif/known_findings.json $ROOT/
if ! git -C $WT apply "$PATCH"; then echo "audit: patch does not apply: $PATCH" >&2; exit 2; fi
if [ "${AUDIT_SKIP_TESTS:-0}" != "1" ]; then
  T=$(cd $WT && CARGO_TARGET_DIR=/verif/sim/target-tests-$SLOT cargo test --offline 2>&1 | grep -E "^test result" | head -1)
  echo "baseline: $T"
  case "$T" in *"107 passed; 0 failed"*) ;; *) echo "audit: baseline tests do not pass with $PATCH (not a realistic change)"; exit 3;; esac
fi
for ID in "$@"; do
  OUT=$(VERIF_REPO=$WT VERIF_AUDIT_SLOT=$SLOT VERIF_AUDIT_ROOT=$ROOT /verif/bin/check "$ID" ${AUDIT_TIER:-quick} 2>&1); CODE=$?
  SIG=$(echo "$OUT" | grep -m1 "signature:" | sed 's/^ *signature: //')
  echo "$(basename "$PATCH") $ID exit=$CODE ${SIG}"
done
