#!/bin/bash
# usage: tools/run_all.sh <quick|thorough> [seed]   - runs every claimed check once, prints one line per check
HERE="$(cd "$(dirname "$0")/.." && pwd)"
TIER="${1:-quick}"
[ -n "${2:-}" ] && export VERIF_SEED="$2"
for id in C01 C02 C03 C04 C05 C07 C08 C09 C10 C11 C12 C13 C15 C16 C17 C18; do
  S=$(date +%s)
  OUT=$("$HERE/bin/check" $id $TIER 2>&1); CODE=$?
  E=$(date +%s)
  echo "$id exit=$CODE $((E-S))s :: $(echo "$OUT" | grep -E "violations=|VIOLATION|signature|harness" | head -4 | tr '\n' ' ' | cut -c1-400)"
done
echo ALLDONE
