//! Stub of simple-logging for the simulation: the engine's `setoption name DebugLogLevel
//! value Info` must not open files or install a process-global logger when thousands of
//! simulated engines share one process. The real crate's `log_to_file` is re-entrant
//! (it renews its sink), so returning Ok(()) every time is faithful for what the engine
//! can observe. Calls are counted so that evidence can report them.
use std::sync::atomic::{AtomicU64, Ordering};
pub static CALLS: AtomicU64 = AtomicU64::new(0);
pub fn log_to_file<T: AsRef<std::path::Path>>(
    _path: T,
    _max_log_level: log::LevelFilter,
) -> std::io::Result<()> {
    CALLS.fetch_add(1, Ordering::Relaxed);
    Ok(())
}
