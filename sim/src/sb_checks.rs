//! S-B checks: C07 (expiry at every clock query), C18 (info lines at every expiry point),
//! C12 (depth 1..3 = plain minimax), C11 (mate claims vs a referee mate solver), C10(ii)
//! (a third occurrence is scored as a draw).
use crate::board::BoardState;
use crate::bridge::*;
use crate::draw_table::DrawTable;
use crate::move_generation::{generate_moves, MoveGenerationMode};
use crate::referee::{self as r, Mv, Pos};
use crate::report::{Acc, Violation};
use crate::rng::{fnv, Rng};
use crate::sb::{self, SbRun};
use crate::workload::{self, Game};
use crate::zobrist::ZobristHasher;
use serde_json::{json, Value};

const NODE_CAP: u64 = 600_000;

pub fn scenario(game: &Game, k: Option<u64>, depth: u32, check: &str) -> Value {
    json!({"family": "SB", "check": check, "start_fen": game.start.fen(), "moves": game.moves_text(), "expire_at": k, "depth": depth})
}

fn game_from(sc: &Value) -> Option<Game> {
    let start = Pos::from_fen(sc["start_fen"].as_str()?).ok()?;
    let moves: Vec<Mv> = sc["moves"].as_array()?.iter().filter_map(|m| m.as_str().and_then(Mv::parse)).collect();
    Some(Game { start, moves, source: "replay" })
}

/// a game whose final position is the search root; half of them carry history
pub fn gen_root(rng: &mut Rng) -> Game {
    loop {
        let g = if rng.chance(1, 12) {
            // at most four men, a mate in one on the board (or one move away after a short walk
            // back and forth): where "drawn material" shortcuts are wrong
            let p = minimal_mate_root(rng);
            Game { start: p, moves: vec![], source: "minimal-material" }
        } else if rng.chance(1, 4) {
            // pawns one step from promotion with pieces to capture on the last rank, after a
            // short tactical walk: capture-promotions inside quiescence
            let mut p = workload::template_promotion(rng);
            if rng.chance(1, 2) {
                p = workload::mirror(&p);
            }
            let k = rng.below(3) as usize;
            let pre = workload::random_walk(rng, &p, k, workload::Bias::Tactical);
            for m in pre {
                p = p.apply(m);
            }
            Game { start: p, moves: vec![], source: "promotion-template" }
        } else if rng.chance(1, 4) {
            // a position X seen twice (one there-and-back cycle), then 1..3 reversible quiet
            // moves away from it: X can be re-entered - as a third occurrence, a draw - exactly
            // 1..3 plies below the root, i.e. on the horizon of iteration 1..3
            let x = workload::gen_position(rng);
            let mut moves = workload::shuffle_game(rng, &x, 1, 0);
            if moves.len() == 4 {
                let mut p = x.clone();
                let extra = 1 + rng.below(3);
                for _ in 0..extra {
                    let quiet: Vec<Mv> = p
                        .legal_moves()
                        .into_iter()
                        .filter(|m| !p.is_capture(*m) && r::kind(p.sq[m.from as usize]) != r::PAWN && !p.is_castling(*m) && p.apply(*m).castle == p.castle)
                        .collect();
                    if quiet.is_empty() {
                        break;
                    }
                    let m = *rng.pick(&quiet);
                    p = p.apply(m);
                    moves.push(m);
                }
            } else {
                moves.clear();
            }
            Game { start: x, moves, source: "twice-seen-then-away" }
        } else if rng.chance(1, 2) {
            let p = workload::gen_position(rng);
            Game { start: p, moves: vec![], source: "no-history" }
        } else if rng.chance(1, 3) {
            let start = workload::gen_position(rng);
            let reps = 1 + rng.below(2) as usize;
            let moves = workload::shuffle_game(rng, &start, reps, 2);
            Game { start, moves, source: "shuffle-history" }
        } else {
            workload::gen_game(rng, 16)
        };
        // keep repetition counts <= 2 so that C10's count>=3 question stays out of C07/C12
        let mut counts = std::collections::HashMap::new();
        let mut ok = true;
        for p in g.positions() {
            let c = counts.entry(p.canon()).or_insert(0);
            *c += 1;
            if *c > 2 {
                ok = false;
            }
        }
        let fin = g.final_pos();
        if ok && !fin.is_terminal() && fin.legal_moves().len() <= 45 {
            return g;
        }
    }
}

fn kset(rng: &mut Rng, refr: &SbRun, full_limit: u64) -> (Vec<u64>, bool) {
    let kmax = refr.queries;
    if full_limit == 1 {
        // deep mode (D >= 5): runs are dear, so only the acceptance tests and a small sample
        let mut ks: Vec<u64> = vec![];
        for q in refr.send_q.iter().rev().take(4) {
            ks.push(q.saturating_sub(1));
            ks.push(*q);
        }
        for _ in 0..10 {
            ks.push(rng.below(kmax + 1));
        }
        ks.sort();
        ks.dedup();
        return (ks, false);
    }
    if kmax <= full_limit {
        return ((0..=kmax).collect(), true);
    }
    let mut ks: Vec<u64> = (0..=300.min(kmax)).collect();
    for q in refr.send_q.iter().chain(refr.lines.iter().map(|(q, _)| q)) {
        for d in 0..=6u64 {
            let k = (*q + d).saturating_sub(3);
            if k <= kmax {
                ks.push(k);
            }
        }
    }
    for _ in 0..300 {
        ks.push(rng.below(kmax + 1));
    }
    ks.sort();
    ks.dedup();
    (ks, false)
}

/// C07 + C18 oracle for one expiry point against the reference run
#[allow(clippy::too_many_arguments)]
fn judge_expiry(game: &Game, root: &Pos, b: &BoardState, table_before: &[(u64, u8)], refr: &SbRun, run: &SbRun, k: u64, depth: u32, c07: bool, c18: bool, acc: &mut Acc, runno: u64, z: &ZobristHasher) {
    let mut v = |prop: &str, sig: String, detail: String, acc: &mut Acc| {
        acc.violate(Violation { prop: prop.into(), sig, detail: format!("{} [root {} expire@{}]", detail, root.fen(), k), scenario: scenario(game, Some(k), depth, prop), run: runno });
    };
    let lines: Vec<String> = run.lines.iter().map(|(_, l)| l.clone()).collect();
    if c18 {
        if let Some((cls, detail)) = sb::check_info_lines(&lines, root) {
            v("C18", format!("C18/{}", cls), detail, acc);
        }
    }
    if !c07 {
        return;
    }
    if let Some(p) = &run.panicked {
        v("C07", "C07/panic".into(), format!("the search panicked: {}", p), acc);
        return;
    }
    // (e) no sentinel in any reported score
    if let Some((cls, detail)) = sb::check_info_lines(&lines, root) {
        if cls == "sentinel-score" || cls == "score-beyond-mate-magnitude" {
            v("C07", format!("C07/aborted-value-reported/{}", cls), detail, acc);
        }
    }
    // (b) sends are a prefix of the reference run's sends
    let n_expected = refr.send_q.iter().filter(|q| **q <= k).count();
    if n_expected == 0 && !run.stopped {
        // nothing completed before the clock died: exactly one board, the first in its ordering
        if run.sends.len() != 1 {
            v("C07", format!("C07/fallback/sent-{}", run.sends.len().min(2)), format!("no evaluation completed, {} boards handed back", run.sends.len()), acc);
        } else {
            let s = &run.sends[0];
            let succ = generate_moves(b, MoveGenerationMode::AllMoves, z);
            let maxh = succ.iter().map(|x| x.order_heuristic).max().unwrap_or(0);
            let legal_ok = descriptor(s).map(|d| root.legal_moves().contains(&d) && diff_board(s, &root.apply(d)).is_none()).unwrap_or(false);
            if !legal_ok {
                v("C07", "C07/fallback/not-a-legal-root-successor".into(), format!("fallback board {} is not a legal successor", descriptor_text(s)), acc);
            } else if s.order_heuristic != maxh {
                v("C07", "C07/fallback/not-first-in-ordering".into(), format!("fallback move {} has ordering key {} but the best key is {}", descriptor_text(s), s.order_heuristic, maxh), acc);
            }
        }
    } else {
        if run.sends.len() > refr.sends.len() || run.sends.iter().zip(refr.sends.iter()).any(|(a, c)| !sb::same_board(a, c)) {
            let i = run.sends.iter().zip(refr.sends.iter()).position(|(a, c)| !sb::same_board(a, c)).unwrap_or(refr.sends.len());
            v(
                "C07",
                "C07/sends-not-a-prefix".into(),
                format!("improvement #{} handed back is {} but a larger allowance reports {}", i, run.sends.get(i).map(descriptor_text).unwrap_or("-".into()), refr.sends.get(i).map(descriptor_text).unwrap_or("nothing more".into())),
                acc,
            );
        } else if run.sends.is_empty() && !run.stopped {
            v("C07", "C07/no-move-handed-back".into(), "the search returned without handing back any move".into(), acc);
        } else if run.sends.len() < n_expected {
            v("C07", "C07/completed-improvement-dropped".into(), format!("{} improvements completed before the expiry but only {} were handed back", n_expected, run.sends.len()), acc);
        }
        for s in &run.sends {
            let ok = descriptor(s).map(|d| root.legal_moves().contains(&d)).unwrap_or(false);
            if !ok {
                v("C07", "C07/handed-back-illegal-move".into(), format!("{} is not a legal root move", descriptor_text(s)), acc);
            }
        }
    }
    // (c) info lines are a prefix of the reference's (all fields but time)
    let a: Vec<&str> = run.lines.iter().map(|(_, l)| sb::strip_time(l)).collect();
    let c: Vec<&str> = refr.lines.iter().map(|(_, l)| sb::strip_time(l)).collect();
    if a.len() > c.len() || a.iter().zip(c.iter()).any(|(x, y)| x != y) {
        let i = a.iter().zip(c.iter()).position(|(x, y)| x != y).unwrap_or(c.len());
        v("C07", "C07/info-not-a-prefix".into(), format!("reported line #{} is {:?} but a larger allowance reports {:?}", i, a.get(i), c.get(i)), acc);
    }
    // (d) the repetition record is left exactly as it was given
    if !run.stopped && run.table_after != table_before {
        v("C07", "C07/repetition-record-changed".into(), format!("record before {:?} after {:?}", table_before.len(), run.table_after.len()), acc);
    }
}

pub fn run_c07_c18(seed: u64, runno: u64, tag: &str, c07: bool, c18: bool, depth: u32, full_limit: u64) -> Acc {
    let mut rng = Rng::new(crate::rng::mix(seed, tag, runno));
    let mut acc = Acc::new();
    let z = ZobristHasher::create_zobrist_hasher();
    let game = gen_root(&mut rng);
    let t0 = std::time::Instant::now();
    enumerate(&game, depth, full_limit, c07, c18, &mut acc, runno, &z, &mut rng, None);
    let ms = t0.elapsed().as_millis() as u64;
    acc.max("wall_ms_of_the_slowest_position", ms);
    if ms > 5_000 && std::env::var("VERIF_DEBUG_SLOW").is_ok() {
        eprintln!("slow position ({} ms, depth {}, tag {}): {} moves {:?}", ms, depth, tag, game.start.fen(), game.moves_text());
    }
    acc
}

/// closed-shuffle roots (endgames.rs): the tree is so small that the search runs through all
/// its iterations (up to MAX_DEPTH) within a few hundred thousand nodes - the only way to reach
/// per-ply state at large ply numbers. Reference run to the search's own end, then a sample of
/// expiry points.
pub fn run_c07_c18_shuffle(seed: u64, runno: u64, tag: &str, c07: bool, c18: bool) -> Acc {
    let mut rng = Rng::new(crate::rng::mix(seed, tag, runno));
    let mut acc = Acc::new();
    let z = ZobristHasher::create_zobrist_hasher();
    let root = crate::endgames::closed_shuffle_root(&mut rng);
    let game = Game { start: root, moves: vec![], source: "closed-shuffle" };
    acc.count("closed_shuffle_roots");
    enumerate(&game, 99, 1, c07, c18, &mut acc, runno, &z, &mut rng, None);
    acc
}

#[allow(clippy::too_many_arguments)]
pub fn enumerate(game: &Game, depth: u32, full_limit: u64, c07: bool, c18: bool, acc: &mut Acc, runno: u64, z: &ZobristHasher, rng: &mut Rng, only_k: Option<u64>) {
    let root = game.final_pos();
    let (b, table) = match sb::setup(&game.start, &game.moves, z) {
        Some(x) => x,
        None => return,
    };
    let before = sb::table_counts(&table);
    // deep iterations are dear: a tighter node cap keeps one heavy position from dominating
    let node_cap = if depth >= 90 { 3_000_000 } else if depth >= 4 { 150_000 } else { NODE_CAP };
    let refr = sb::run_search(&b, &table, u64::MAX, Some(depth + 1), node_cap);
    if refr.panicked.is_some() {
        if c07 {
            acc.violate(Violation { prop: "C07".into(), sig: "C07/panic/reference-run".into(), detail: format!("the search panicked with an unlimited clock: {:?} [root {}]", refr.panicked, root.fen()), scenario: scenario(game, None, depth, "C07"), run: runno });
        }
        return;
    }
    if depth >= 90 {
        let deepest = refr.lines.iter().filter_map(|(_, l)| crate::verif_seam::info_depth(l)).max().unwrap_or(0);
        acc.max("deepest_iteration_reported_on_a_closed_shuffle", deepest as u64);
        if deepest >= 60 {
            acc.count("probe_closed_shuffle_searched_beyond_iteration_60");
        }
        if !refr.stopped && !refr.capped {
            acc.count("probe_search_ran_to_its_own_end");
        }
    }
    if c18 {
        let lines: Vec<String> = refr.lines.iter().map(|(_, l)| l.clone()).collect();
        if let Some((cls, detail)) = sb::check_info_lines(&lines, &root) {
            acc.violate(Violation { prop: "C18".into(), sig: format!("C18/{}", cls), detail: format!("{} [root {} unlimited clock]", detail, root.fen()), scenario: scenario(game, None, depth, "C18"), run: runno });
        }
    }
    // "a larger allowance never changes the sequence, it only extends it": allowances of any
    // magnitude - from 30 s (a scripted run of 3 M clock queries covers 3 s) to u128::MAX, ordinary
    // ones included - that the clock never reaches
    // must report exactly the reference's sequence
    if c07 && only_k.is_none() {
        const HUGE: &[u128] = &[(1u128 << 63) - 1, 1u128 << 63, (1u128 << 64) + 1234, 1u128 << 100, u128::MAX, 20_000_000, 30_000, 59_999, 60_000, 60_001, 600_000, 3_600_000, 86_400_000];
        let a = HUGE[(runno % HUGE.len() as u64) as usize];
        let big = sb::run_search_with_allowance(&b, &table, u64::MAX, Some(depth + 1), node_cap, a);
        acc.evals += 1;
        acc.count("c07_runs_with_huge_allowance");
        let x: Vec<&str> = big.lines.iter().map(|(_, l)| sb::strip_time(l)).collect();
        let y: Vec<&str> = refr.lines.iter().map(|(_, l)| sb::strip_time(l)).collect();
        if big.panicked.is_some() || x != y || big.sends.len() != refr.sends.len() || big.sends.iter().zip(refr.sends.iter()).any(|(p, q)| !sb::same_board(p, q)) {
            let i = x.iter().zip(y.iter()).position(|(p, q)| p != q).unwrap_or(x.len().min(y.len()));
            acc.violate(Violation {
                prop: "C07".into(),
                sig: "C07/larger-allowance-changes-the-sequence".into(),
                detail: format!("with an allowance of {} ms (never reached) improvement #{} is {:?}, with 10^9 ms it is {:?}; panic: {:?} [root {}]", a, i, x.get(i), y.get(i), big.panicked, root.fen()),
                scenario: json!({"family": "SB", "check": "C07", "start_fen": game.start.fen(), "moves": game.moves_text(), "expire_at": Value::Null, "depth": depth, "allowance_ms": a.to_string()}),
                run: runno,
            });
        }
    }
    let (ks, exhaustive) = match only_k {
        Some(k) => (vec![k], false),
        None => kset(rng, &refr, full_limit),
    };
    if only_k.is_none() {
        acc.count(if exhaustive { "positions_enumerated_exhaustively" } else { "positions_sampled" });
        acc.max("queries_in_reference_run", refr.queries);
        if runno < 2 {
            acc.sample(json!({"root": root.fen(), "history_plies": game.moves.len(), "reference_queries": refr.queries, "expiry_points_run": ks.len(), "exhaustive": exhaustive, "reference_lines": refr.lines.iter().map(|(q, l)| format!("q{}: {}", q, l)).collect::<Vec<_>>()}));
        }
    }
    let ph = root.canon_hash();
    let mut work: u64 = 0;
    for k in ks {
        if work > 15_000_000 {
            // a work budget per position: quiescence-heavy roots (walls of pawns) must not
            // dominate a batch; the remaining expiry points of this position are skipped
            acc.count("positions_truncated_by_work_budget");
            break;
        }
        let run = sb::run_search(&b, &table, k, Some(depth + 1), node_cap);
        work += run.nodes;
        acc.evals += 1;
        acc.count("fault_fired:expire_at_query");
        if k >= 1 && k < refr.queries {
            acc.nontrivial.insert(fnv(ph, &k.to_le_bytes()));
        }
        if refr.send_q.first().map(|q| k + 1 < *q).unwrap_or(true) {
            acc.count("probe_expiry_before_first_completed_evaluation");
        }
        if refr.send_q.iter().any(|q| *q == k + 1) {
            acc.count("probe_expiry_at_root_acceptance_test");
        }
        judge_expiry(game, &root, &b, &before, &refr, &run, k, depth, c07, c18, acc, runno, z);
    }
    acc.distinct.insert(ph);
}

pub fn replay_expiry(sc: &Value, prop: &str) -> Acc {
    let mut acc = Acc::new();
    let z = ZobristHasher::create_zobrist_hasher();
    let game = match game_from(sc) {
        Some(g) => g,
        None => return acc,
    };
    let depth = sc["depth"].as_u64().unwrap_or(2) as u32;
    let mut rng = Rng::new(1);
    if let Some(a) = sc["allowance_ms"].as_str().and_then(|s| s.parse::<u128>().ok()) {
        // the huge-allowance comparison is selected by run number (see `enumerate`)
        const HUGE: &[u128] = &[(1u128 << 63) - 1, 1u128 << 63, (1u128 << 64) + 1234, 1u128 << 100, u128::MAX, 20_000_000, 30_000, 59_999, 60_000, 60_001, 600_000, 3_600_000, 86_400_000];
        let idx = HUGE.iter().position(|x| *x == a).unwrap_or(0) as u64;
        enumerate(&game, depth, 0, prop == "C07", prop == "C18", &mut acc, idx, &z, &mut rng, None);
        return acc;
    }
    let k = sc["expire_at"].as_u64();
    match k {
        Some(k) => enumerate(&game, depth, 0, prop == "C07", prop == "C18", &mut acc, 0, &z, &mut rng, Some(k)),
        None => enumerate(&game, depth, 0, prop == "C07", prop == "C18", &mut acc, 0, &z, &mut rng, Some(u64::MAX - 1)),
    }
    acc
}

// ------------------------------------------------------------------------------------------
// C12

fn history_table(game: &Game, z: &ZobristHasher) -> std::collections::HashMap<u64, u32> {
    let mut t = std::collections::HashMap::new();
    for p in game.positions() {
        *t.entry(model_key(&p, z)).or_insert(0) += 1;
    }
    t
}

pub fn run_c12(seed: u64, runno: u64) -> Acc {
    let mut rng = Rng::new(crate::rng::mix(seed, "C12", runno));
    let mut acc = Acc::new();
    let z = ZobristHasher::create_zobrist_hasher();
    let game = if runno % 29 == 11 {
        // more than 128 legal moves, every mate in one produced late by the generator
        // (endgames.rs): depth 1 is within the reference's reach, deeper ones are skipped
        acc.count("c12_heavy_material_roots");
        let all = crate::endgames::HEAVY_MATES;
        Game { start: Pos::from_fen(all[(runno / 29) as usize % all.len()]).unwrap(), moves: vec![], source: "heavy-mates" }
    } else if runno % 61 == 7 {
        // forcing check chains next to a quiet mate: check extensions make values of different
        // mate lengths meet inside one shallow iteration
        let p = Pos::from_fen(CROSS_CHECK_MATES[(runno / 61) as usize % CROSS_CHECK_MATES.len()]).unwrap();
        Game { start: if (runno / 61) % 2 == 0 { p } else { workload::mirror(&p) }, moves: vec![], source: "cross-check" }
    } else {
        gen_root(&mut rng)
    };
    judge_c12(&game, &mut acc, runno, &z);
    acc
}

pub fn judge_c12(game: &Game, acc: &mut Acc, runno: u64, z: &ZobristHasher) {
    let root = game.final_pos();
    let (b, table) = match sb::setup(&game.start, &game.moves, z) {
        Some(x) => x,
        None => return,
    };
    let refr = sb::run_search(&b, &table, u64::MAX, Some(4), 3_000_000);
    if refr.panicked.is_some() || refr.sends.len() != refr.lines.len() {
        return; // C07's business
    }
    let succ = generate_moves(&b, MoveGenerationMode::AllMoves, z);
    let mut v = |sig: String, detail: String, acc: &mut Acc| {
        acc.violate(Violation { prop: "C12".into(), sig, detail: format!("{} [root {} history {:?}]", detail, root.fen(), game.moves_text()), scenario: json!({"family": "SB", "check": "C12", "start_fen": game.start.fen(), "moves": game.moves_text()}), run: runno });
    };
    for d in 1..=3u32 {
        // last line of depth d (only if the iteration completed: a line of a deeper depth follows or the run was stopped at depth 4)
        let idx: Vec<usize> = refr.lines.iter().enumerate().filter(|(_, (_, l))| crate::verif_seam::info_depth(l) == Some(d)).map(|(i, _)| i).collect();
        let last = match idx.last() {
            Some(i) => *i,
            None => continue,
        };
        let completed = (refr.stopped && !refr.capped) || (!refr.stopped && refr.panicked.is_none()) || refr.lines.iter().any(|(_, l)| crate::verif_seam::info_depth(l).map(|x| x > d).unwrap_or(false));
        if !completed {
            continue;
        }
        let inf = match sb::parse_info_strict(&refr.lines[last].1) {
            Some(i) => i,
            None => continue, // C18's business
        };
        // reference: plain negamax over the engine's generator and evaluation
        let mut rf = sb::Reference { z, table: history_table(game, z), nodes: 0, rep_on_pv: false, ext_used: false, cap: 1_500_000, aborted: false };
        let mut vals: Vec<i32> = Vec::with_capacity(succ.len());
        let mut too_big = false;
        for m in &succ {
            vals.push(-rf.negamax(m, d - 1, 1));
            if rf.aborted {
                too_big = true;
                break;
            }
        }
        if too_big {
            acc.count("c12_reference_too_large_skipped");
            continue;
        }
        let best = *vals.iter().max().unwrap();
        acc.evals += 1;
        acc.count(&format!("c12_depth_{}_judged", d));
        let enc = sb::encode_score(best);
        let static_first = succ.iter().enumerate().max_by_key(|(_, s)| s.order_heuristic).map(|(i, _)| i).unwrap_or(0);
        let best_idx = vals.iter().position(|x| *x == best).unwrap();
        if best_idx != static_first || rf.rep_on_pv || rf.ext_used || enc.is_err() {
            acc.nontrivial.insert(fnv(root.canon_hash(), &[d as u8]));
        }
        if inf.score != enc {
            v(format!("C12/value/depth-{}", d), format!("depth {} reported {:?} but plain minimax of its own evaluation gives {:?} (raw {})", d, inf.score, enc, best), acc);
            continue;
        }
        // the move selected attains that value
        let chosen = &refr.sends[last];
        match succ.iter().position(|s| s.last_move == chosen.last_move && s.pawn_promotion == chosen.pawn_promotion) {
            Some(ci) => {
                if sb::encode_score(vals[ci]) != enc {
                    v(format!("C12/move/depth-{}", d), format!("depth {} selected {} whose minimax value is {} but the best is {}", d, descriptor_text(chosen), vals[ci], best), acc);
                }
            }
            None => v(format!("C12/move-unknown/depth-{}", d), format!("selected board {} is not a root successor", descriptor_text(chosen)), acc),
        }
    }
    acc.distinct.insert(root.canon_hash());
    if runno < 2 {
        acc.sample(json!({"root": root.fen(), "history": game.moves_text(), "engine_lines": refr.lines.iter().map(|(_, l)| l.clone()).collect::<Vec<_>>()}));
    }
}

// ------------------------------------------------------------------------------------------
// C11

/// mate in one by a quiet move, with a forcing capture-check line that also mates (longer)
pub const CROSS_CHECK_MATES: &[&str] = &[
    "r3n2k/4R1p1/6P1/8/Q1B5/1R6/8/4K3 w - - 0 1",
    "r3n2k/4R1p1/6P1/8/Q1B5/2R5/8/4K3 w - - 0 1",
    "r3n2k/4R1p1/6P1/8/Q1B5/3R4/8/4K3 w - - 0 1",
    "r3n2k/4R1p1/6P1/8/Q1B5/5R2/8/4K3 w - - 0 1",
];

/// a position of the minimal-material list (see endgames.rs): as listed (mate in one for the
/// mover), colour-mirrored and/or file-flipped, sometimes one legal move earlier or later
pub fn minimal_mate_root(rng: &mut Rng) -> Pos {
    let all = crate::endgames::MINIMAL_MATES;
    // half of the draws from the classes without queen and rook
    let minor: Vec<&(&str, &str)> = all.iter().filter(|(s, _)| !s.contains('Q') && !s.contains('R')).collect();
    let fen = if rng.chance(1, 2) && !minor.is_empty() { rng.pick(&minor).1 } else { rng.pick(all).1 };
    let mut p = Pos::from_fen(fen).unwrap();
    if rng.chance(1, 2) {
        // flip files (no castling rights, no en-passant target in these positions)
        let mut q = Pos::empty();
        for s in 0..64u8 {
            q.sq[r::sq(7 - r::file_of(s), r::rank_of(s)) as usize] = p.sq[s as usize];
        }
        q.white_to_move = p.white_to_move;
        p = q;
    }
    if rng.chance(1, 2) {
        p = workload::mirror(&p);
    }
    if rng.chance(1, 4) {
        // the defender to move, one move after the attacker declined the mate
        let ms: Vec<Mv> = p.legal_moves().into_iter().filter(|m| !p.apply(*m).is_terminal()).collect();
        if !ms.is_empty() {
            p = p.apply(*rng.pick(&ms));
        }
    }
    p
}

/// small positions near mate: a strong side (queen/rooks/minor + pawns), kings biased to rims
pub fn gen_mate_position(rng: &mut Rng) -> Pos {
    loop {
        let mut p = Pos::empty();
        let rim = |rng: &mut Rng| -> u8 {
            let a = rng.below(8) as i32;
            match rng.below(4) {
                0 => r::sq(a, 0),
                1 => r::sq(a, 7),
                2 => r::sq(0, a),
                _ => r::sq(7, a),
            }
        };
        let bk = if rng.chance(3, 4) { rim(rng) } else { rng.below(64) as u8 };
        let wk = rng.below(64) as u8;
        if wk == bk || ((r::file_of(wk) - r::file_of(bk)).abs() <= 1 && (r::rank_of(wk) - r::rank_of(bk)).abs() <= 1) {
            continue;
        }
        p.sq[wk as usize] = r::KING;
        p.sq[bk as usize] = r::KING | r::BLACK;
        let n_strong = 1 + rng.below(3);
        for _ in 0..n_strong {
            let s = rng.below(64) as u8;
            if p.sq[s as usize] == 0 {
                p.sq[s as usize] = *rng.pick(&[r::QUEEN, r::ROOK, r::ROOK, r::BISHOP, r::KNIGHT]);
            }
        }
        for _ in 0..rng.below(4) {
            let s = rng.below(64) as u8;
            if p.sq[s as usize] == 0 && r::rank_of(s) != 0 && r::rank_of(s) != 7 {
                p.sq[s as usize] = *rng.pick(&[r::PAWN, r::PAWN | r::BLACK, r::PAWN | r::BLACK, r::KNIGHT | r::BLACK, r::ROOK | r::BLACK]);
            }
        }
        p.white_to_move = rng.chance(2, 3);
        // a third of the positions: the side to move (often the weaker one) has a pawn one step
        // from promotion, so that the choice of promotion piece decides between mate and escape
        if rng.chance(1, 3) {
            let f = rng.below(8) as i32;
            let (s, target, pc) = if p.white_to_move { (r::sq(f, 6), r::sq(f, 7), r::PAWN) } else { (r::sq(f, 1), r::sq(f, 0), r::PAWN | r::BLACK) };
            if p.sq[s as usize] == 0 && p.sq[target as usize] == 0 {
                p.sq[s as usize] = pc;
            }
        }
        if !p.is_legal_position() {
            continue;
        }
        let p = if rng.chance(1, 2) { workload::mirror(&p) } else { p };
        if p.is_terminal() || p.piece_count() > 8 {
            continue;
        }
        return p;
    }
}

pub fn run_c11(seed: u64, runno: u64, solver_bound: u32) -> Acc {
    let mut rng = Rng::new(crate::rng::mix(seed, "C11", runno));
    let mut acc = Acc::new();
    let z = ZobristHasher::create_zobrist_hasher();
    // sources: generated small positions, the endgame seeds and terminal-adjacent walks
    let root = match if rng.chance(1, 150) { 99 } else if rng.chance(1, 8) { 98 } else if rng.chance(1, 60) && !crate::endgames::CASTLING_MATES.is_empty() { 97 } else { rng.below(27) } {
        97 => {
            // the only mates in one are castling moves (recorded as a king move; the rook checks)
            acc.count("c11_mate_by_castling_positions");
            let p = Pos::from_fen(*rng.pick(crate::endgames::CASTLING_MATES)).unwrap();
            if rng.chance(1, 2) { workload::mirror(&p) } else { p }
        }
        98 => {
            // two or three heavy pieces against a bare king, strong side to move: the same
            // positions recur at different plies of one shallow search by many move orders
            // (whatever the search remembers about a position must not depend on the ply)
            acc.count("c11_heavy_pieces_against_a_bare_king");
            loop {
                let mut p = Pos::empty();
                let wk = rng.below(64) as u8;
                let bk = rng.below(64) as u8;
                if wk == bk || ((r::file_of(wk) - r::file_of(bk)).abs() <= 1 && (r::rank_of(wk) - r::rank_of(bk)).abs() <= 1) {
                    continue;
                }
                p.sq[wk as usize] = r::KING;
                p.sq[bk as usize] = r::KING | r::BLACK;
                for _ in 0..2 + rng.below(2) {
                    let s = rng.below(64) as u8;
                    if p.sq[s as usize] == 0 {
                        p.sq[s as usize] = *rng.pick(&[r::QUEEN, r::ROOK, r::ROOK, r::KNIGHT]);
                    }
                }
                p.white_to_move = true;
                if !p.is_legal_position() || p.is_terminal() {
                    continue;
                }
                break if rng.chance(1, 2) { workload::mirror(&p) } else { p };
            }
        }
        99 => {
            // more than 128 legal moves and the mates in one come late in the move list
            acc.count("c11_heavy_material_positions");
            Pos::from_fen(*rng.pick(crate::endgames::HEAVY_MATES)).unwrap()
        }
        24 | 25 | 26 => {
            acc.count("c11_minimal_material_positions");
            minimal_mate_root(&mut rng)
        }
        23 => {
            // cross-check chains: a capture with check whose every reply gives check back and
            // is answered by mate is seen as "mate in 2" already in iteration 1 (check
            // extensions), BEFORE the quiet mate in one further down the ordering
            let fen = *rng.pick(CROSS_CHECK_MATES);
            let p = Pos::from_fen(fen).unwrap();
            acc.count("c11_cross_check_positions");
            if rng.chance(1, 2) { workload::mirror(&p) } else { p }
        }
        20 | 21 | 22 => {
            // rich positions from the shared workload (many pieces: capture-with-check chains,
            // quiet mates, defenders that can interpose), kept when a mate is near
            let mut found = None;
            for _ in 0..40 {
                let p = workload::gen_position(&mut rng);
                if p.is_terminal() {
                    continue;
                }
                if r::mates_in(&p, 1) || p.legal_moves().iter().any(|m| r::mates_in(&p.apply(*m), 1)) {
                    found = Some(p);
                    break;
                }
            }
            match found {
                Some(p) => {
                    acc.count("c11_rich_workload_positions");
                    p
                }
                None => gen_mate_position(&mut rng),
            }
        }
        0 => {
            let g = crate::sa_checks::gen_terminal_game(&mut rng);
            match g {
                Some(g) if !g.moves.is_empty() => {
                    // one or two plies before the end
                    let back = 1 + rng.below(2.min(g.moves.len() as u64)) as usize;
                    Game { start: g.start.clone(), moves: g.moves[..g.moves.len() - back].to_vec(), source: "" }.final_pos()
                }
                _ => gen_mate_position(&mut rng),
            }
        }
        1 => {
            let s = Pos::from_fen(*rng.pick(crate::sa_checks::ENDGAME_SEEDS)).unwrap();
            let k = rng.below(3) as usize;
            let w = workload::random_walk(&mut rng, &s, k, workload::Bias::Uniform);
            Game { start: s, moves: w, source: "" }.final_pos()
        }
        _ => gen_mate_position(&mut rng),
    };
    if root.is_terminal() {
        return acc;
    }
    // half of the roots carry a game history (a there-and-back shuffle: every position of it
    // occurred once or twice before), so that repetition bookkeeping is live under the mates
    let moves = if rng.chance(1, 2) {
        // exactly one cycle: the root then occurred twice, every other position of the history
        // once - nothing the mover can step into is a (legitimate, C10) repetition draw yet
        let m = workload::shuffle_game(&mut rng, &root, 1, 0);
        if m.len() == 4 { m } else { vec![] }
    } else {
        vec![]
    };
    if !moves.is_empty() {
        acc.count("c11_roots_with_history");
    }
    let game = Game { start: root.clone(), moves, source: "c11" };
    judge_c11(&game, solver_bound, &mut acc, runno, &z);
    acc
}

pub fn judge_c11(game: &Game, solver_bound: u32, acc: &mut Acc, runno: u64, z: &ZobristHasher) {
    let root = game.final_pos();
    let (b, table) = match sb::setup(&game.start, &game.moves, z) {
        Some(x) => x,
        None => return,
    };
    let depth: u32 = std::env::var("VERIF_C11_DEPTH").ok().and_then(|s| s.parse().ok()).unwrap_or(if solver_bound >= 4 { 5 } else { 3 });
    let refr = sb::run_search(&b, &table, u64::MAX, Some(depth + 1), 2_000_000);
    if refr.panicked.is_some() || refr.sends.len() != refr.lines.len() {
        return;
    }
    let mut v = |sig: String, detail: String, acc: &mut Acc| {
        acc.violate(Violation { prop: "C11".into(), sig, detail: format!("{} [root {}]", detail, root.fen()), scenario: json!({"family": "SB", "check": "C11", "start_fen": game.start.fen(), "moves": game.moves_text(), "solver_bound": solver_bound}), run: runno });
    };
    acc.evals += 1;
    let can_mate_1 = r::mates_in(&root, 1);
    let legal = root.legal_moves();
    let safe_exists = legal.iter().any(|m| !r::mates_in(&root.apply(*m), 1));
    let mated_soon = !safe_exists;
    let depth_of = |i: usize| crate::verif_seam::info_depth(&refr.lines[i].1).unwrap_or(0);
    let n = refr.sends.len();
    // under an unlimited clock a search that RETURNED by itself has finished every iteration it
    // will ever run: what it handed back last is what gets played
    let ended_by_itself = !refr.stopped && refr.panicked.is_none();
    if ended_by_itself {
        acc.count("c11_search_returned_by_itself_under_unlimited_clock");
    }
    let iter_done = |d: u32| ended_by_itself || (refr.stopped && !refr.capped && d <= depth) || (0..n).any(|i| depth_of(i) > d);
    let mut class = "other";
    // (1) a mate in one is played once iteration 1 has finished
    if can_mate_1 {
        class = "mate-in-1-available";
        if iter_done(1) {
            let last_d1 = (0..n).filter(|i| depth_of(*i) == 1).last();
            if let Some(i0) = last_d1 {
                for i in i0..n {
                    let pos = to_pos(&refr.sends[i]);
                    if !pos.is_checkmate() {
                        v("C11/mate-in-one-not-played".into(), format!("a mate in one exists but after iteration {} the move in hand is {}", depth_of(i), descriptor_text(&refr.sends[i])), acc);
                        break;
                    }
                }
            } else {
                v("C11/no-depth-1-result".into(), "iteration 1 reported nothing".into(), acc);
            }
        }
    } else if safe_exists && legal.iter().any(|m| r::mates_in(&root.apply(*m), 1)) {
        // (2) do not play into a mate in one once iteration 2 has finished
        class = "some-moves-allow-mate-in-1";
        if iter_done(2) {
            let last_d2 = (0..n).filter(|i| depth_of(*i) == 2).last();
            if let Some(i0) = last_d2 {
                for i in i0..n {
                    let pos = to_pos(&refr.sends[i]);
                    if r::mates_in(&pos, 1) {
                        v("C11/plays-into-mate-in-one".into(), format!("after iteration {} the move in hand {} allows mate in one although a safe move exists", depth_of(i), descriptor_text(&refr.sends[i])), acc);
                        break;
                    }
                }
            }
        }
    } else if mated_soon {
        class = "being-mated-in-1";
    } else if legal.iter().any(|m| root.apply(*m).is_stalemate()) {
        class = "stalemate-one-ply-away";
    }
    // (3) every mate announcement is true
    for (i, (_, l)) in refr.lines.iter().enumerate() {
        let inf = match sb::parse_info_strict(l) {
            Some(x) => x,
            None => continue,
        };
        if let Err(nm) = inf.score {
            let d = depth_of(i);
            if nm > 0 {
                let bound = if root.piece_count() > 10 { solver_bound.min(2) } else { solver_bound };
                if nm as u32 <= bound {
                    acc.count("c11_mate_claims_verified");
                    if !r::mates_in(&root, nm as u32) {
                        v(format!("C11/false-mate-claim/depth-{}", d.min(4)), format!("{:?} but no forced mate in {} exists", l, nm), acc);
                    }
                } else {
                    acc.count("c11_mate_claims_beyond_solver_bound_unverified");
                }
            } else if !(iter_done(d) && (i + 1 == refr.lines.len() || depth_of(i + 1) > d)) {
                // "mated in N" on an interim line is only the best line found so far (a lower
                // bound); the property quantifies over completed depths: judge the final line
                acc.count("c11_interim_mated_lines_not_judged");
            } else if (-nm) as u32 <= if root.piece_count() > 10 { solver_bound.min(2) } else { solver_bound } {
                acc.count("c11_mated_claims_verified");
                if !r::is_mated_in(&root, (-nm) as u32) {
                    v(format!("C11/false-mated-claim/depth-{}", d.min(4)), format!("{:?} but the side to move is not mated within {} moves against every defence", l, -nm), acc);
                }
            } else {
                acc.count("c11_mate_claims_beyond_solver_bound_unverified");
            }
            if class == "other" {
                class = "mate-announced";
            }
        }
    }
    acc.count(&format!("class:{}", class));
    if class != "other" {
        acc.nontrivial.insert(fnv(root.canon_hash(), class.as_bytes()));
    }
    acc.distinct.insert(root.canon_hash());
    if runno < 3 {
        acc.sample(json!({"root": root.fen(), "class": class, "lines": refr.lines.iter().map(|(_, l)| l.clone()).collect::<Vec<_>>()}));
    }
}

// ------------------------------------------------------------------------------------------
// C10 (ii)

/// a game ending in a root where the mover (clearly worse by the engine's own evaluation)
/// has a move into a position that already occurred `want` (>= 2) times
pub fn gen_repetition_root(rng: &mut Rng, want: u32, z: &ZobristHasher) -> Option<Game> {
    for _ in 0..40 {
        let lookalike = rng.chance(1, 3);
        let x = if lookalike { workload::template_castle_lookalike(rng) } else { workload::gen_position(rng) };
        if x.is_terminal() {
            continue;
        }
        let b = BoardState::from_fen(&x.fen()).ok()?;
        let _ = z;
        // the mover must be clearly worse: at least a rook down by the engine's own evaluation
        if crate::evaluation::get_evaluation(&b) > -450 {
            continue;
        }
        // one reversible quartet a b a' b' from x
        let q = workload::shuffle_game(rng, &x, 1, 0);
        if q.len() != 4 {
            continue;
        }
        let (a, bb, a2, b2) = (q[0], q[1], q[2], q[3]);
        // history: start at x.a (so that the root x has a lower count than x.a), then cycle
        let start = x.apply(a);
        let mut moves = vec![];
        // positions: xa(1) -b-> xab -a'-> xaba' -b'-> x -a-> xa(2) ...
        for _ in 0..(want - 1) {
            moves.extend([bb, a2, b2, a]);
        }
        moves.extend([bb, a2, b2]);
        // now at x with xa having occurred `want` times
        let g = Game { start, moves, source: "c10-rep-root" };
        // validate by the referee
        let mut p = g.start.clone();
        let mut ok = true;
        for m in &g.moves {
            if !p.legal_moves().contains(m) {
                ok = false;
                break;
            }
            p = p.apply(*m);
        }
        if !ok || p.canon() != x.canon() {
            continue;
        }
        let cnt = g.positions().iter().filter(|q| q.canon() == x.apply(a).canon()).count() as u32;
        if cnt != want {
            continue;
        }
        return Some(g);
    }
    None
}

/// a root where the mover - usually far AHEAD - is in perpetual check: its only legal move
/// leads to a position that already occurred `want` times (endgames.rs, FORCED_REPETITIONS)
pub fn forced_repetition_game(rng: &mut Rng, want: u32) -> Option<Game> {
    let x = Pos::from_fen(*rng.pick(crate::endgames::FORCED_REPETITIONS)).ok()?;
    let [a, b, a2, b2] = crate::endgames::forced_cycle(&x)?;
    let start = x.apply(a);
    let mut moves = vec![];
    for _ in 0..(want - 1) {
        moves.extend([b, a2, b2, a]);
    }
    moves.extend([b, a2, b2]);
    let g = Game { start, moves, source: "c10-forced-repetition" };
    // validate by the referee
    let mut p = g.start.clone();
    for m in &g.moves {
        if !p.legal_moves().contains(m) {
            return None;
        }
        p = p.apply(*m);
    }
    if p.canon() != x.canon() {
        return None;
    }
    Some(g)
}

pub fn run_c10_search(seed: u64, runno: u64) -> Acc {
    let mut rng = Rng::new(crate::rng::mix(seed, "C10-search", runno));
    let mut acc = Acc::new();
    let z = ZobristHasher::create_zobrist_hasher();
    let want = *rng.pick(&[2u32, 2, 3, 3, 4]);
    let forced = rng.chance(1, 6);
    let game = match if forced { forced_repetition_game(&mut rng, want) } else { gen_repetition_root(&mut rng, want, &z) } {
        Some(g) => g,
        None => return acc,
    };
    if forced {
        acc.count("c10_roots_in_perpetual_check_with_one_legal_move");
    }
    judge_c10_search(&game, want, &mut acc, runno, &z);
    acc
}

pub fn judge_c10_search(game: &Game, want: u32, acc: &mut Acc, runno: u64, z: &ZobristHasher) {
    let root = game.final_pos();
    let (b, table) = match sb::setup(&game.start, &game.moves, z) {
        Some(x) => x,
        None => return,
    };
    let before = sb::table_counts(&table);
    let depth = 3;
    let refr = sb::run_search(&b, &table, u64::MAX, Some(depth + 1), 2_000_000);
    if refr.panicked.is_some() {
        return;
    }
    acc.evals += 1;
    acc.nontrivial.insert(fnv(root.canon_hash(), &[want as u8]));
    acc.count(&format!("c10_roots_with_drawing_move_count_{}", want));
    let scen = json!({"family": "SB", "check": "C10", "start_fen": game.start.fen(), "moves": game.moves_text(), "want": want});
    for d in 1..=depth {
        let completed = (refr.stopped && !refr.capped) || (!refr.stopped && refr.panicked.is_none()) || refr.lines.iter().any(|(_, l)| crate::verif_seam::info_depth(l).map(|x| x > d).unwrap_or(false));
        if !completed {
            continue;
        }
        let last = refr.lines.iter().filter(|(_, l)| crate::verif_seam::info_depth(l) == Some(d)).last();
        if let Some((_, l)) = last {
            if let Some(inf) = sb::parse_info_strict(l) {
                let below = match inf.score {
                    Ok(cp) => cp < 0,
                    Err(n) => n < 0,
                };
                if below {
                    acc.violate(Violation {
                        prop: "C10".into(),
                        sig: format!("C10/search/draw-not-taken/count-{}", if want >= 3 { "3+" } else { "2" }),
                        detail: format!("the mover can repeat a position that already occurred {} times (a draw) but depth {} reports {:?} [root {} history {:?}]", want, d, inf.score, root.fen(), game.moves_text()),
                        scenario: scen.clone(),
                        run: runno,
                    });
                    break;
                }
            }
        }
    }
    let _ = before;
    if runno < 2 {
        acc.sample(json!({"root": root.fen(), "history": game.moves_text(), "count_of_repeatable_position": want, "lines": refr.lines.iter().map(|(_, l)| l.clone()).collect::<Vec<_>>()}));
    }
}

pub fn replay_game_check(sc: &Value, prop: &str) -> Acc {
    let mut acc = Acc::new();
    let z = ZobristHasher::create_zobrist_hasher();
    let game = match game_from(sc) {
        Some(g) => g,
        None => return acc,
    };
    match prop {
        "C12" => judge_c12(&game, &mut acc, 0, &z),
        "C11" => judge_c11(&game, sc["solver_bound"].as_u64().unwrap_or(3) as u32, &mut acc, 0, &z),
        "C10" => judge_c10_search(&game, sc["want"].as_u64().unwrap_or(2) as u32, &mut acc, 0, &z),
        _ => {}
    }
    acc
}

#[allow(dead_code)]
fn _unused(_: &DrawTable) {}
