//! S-B: search simulation. One thread calls the real get_best_move directly under the
//! scripted-expiry clock: the first k clock queries answer "in time", all later ones "out of
//! time" (with a monotonic clock every behaviour the search can observe is one such k). The
//! harness holds the Receiver, captures send_to_gui output and snapshots the DrawTable.
use crate::board::BoardState;
use crate::bridge::*;
use crate::draw_table::DrawTable;
#[cfg(feature = "sb")]
use crate::engine::get_best_move;

/// false in the fallback build (see Cargo.toml): every S-B scenario is then unavailable
pub const AVAILABLE: bool = cfg!(feature = "sb");
use crate::referee::{self as r, Mv, Pos};
use crate::verif_seam::{self as seam, mpsc, time::Instant, Ctx, Scripted, ScriptedStop};
use crate::zobrist::ZobristHasher;

pub const BIG_MS: u128 = 1_000_000_000;

pub struct SbRun {
    pub sends: Vec<BoardState>,
    pub send_q: Vec<u64>,
    /// (query index when emitted, line)
    pub lines: Vec<(u64, String)>,
    pub queries: u64,
    pub nodes: u64,
    pub panicked: Option<String>,
    pub stopped: bool,
    /// stopped by the node cap in the middle of an iteration (not at the first line of depth D+1)
    pub capped: bool,
    pub table_after: Vec<(u64, u8)>,
}

pub fn table_counts(t: &DrawTable) -> Vec<(u64, u8)> {
    let mut v: Vec<(u64, u8)> = t.table.iter().filter(|(_, c)| **c != 0).map(|(k, c)| (*k, *c)).collect();
    v.sort();
    v
}

/// run the real search with the clock expiring at query `expire_at`
pub fn run_search(board: &BoardState, table: &DrawTable, expire_at: u64, stop_at_depth: Option<u32>, node_cap: u64) -> SbRun {
    run_search_with_allowance(board, table, expire_at, stop_at_depth, node_cap, BIG_MS)
}

/// the same with an explicit allowance (ms). With `expire_at = u64::MAX` the clock never
/// passes any allowance >= 1 ms within a bounded run, so allowances of any magnitude (2^63,
/// 2^64 + n, u128::MAX) are "never expires" and must all report the same sequence.
pub fn run_search_with_allowance(board: &BoardState, table: &DrawTable, expire_at: u64, stop_at_depth: Option<u32>, node_cap: u64, allowance_ms: u128) -> SbRun {
    seam::install_panic_hook();
    let (tx, rx) = mpsc::channel::<BoardState>();
    let mut t = table.clone();
    let prev = seam::install(Ctx::Scripted(Scripted { expire_at, queries: 0, nodes: 0, lines: vec![], sends: vec![], stop_at_depth, node_cap, capped: false }));
    let start = Instant(0);
    let res = std::panic::catch_unwind(std::panic::AssertUnwindSafe(|| {
        #[cfg(feature = "sb")]
        get_best_move(board, &mut t, start, allowance_ms, &tx);
        #[cfg(not(feature = "sb"))]
        {
            let _ = (&board, &mut t, start, allowance_ms, &tx);
            panic!("the S-B scenario family is not available in this build");
        }
    }));
    let ctx = seam::install(prev);
    let s = match ctx {
        Ctx::Scripted(s) => s,
        _ => Scripted::default(),
    };
    let mut stopped = false;
    let mut panicked = None;
    if let Err(p) = res {
        if p.is::<ScriptedStop>() {
            stopped = true;
        } else {
            panicked = Some(seam::last_panic().unwrap_or_else(|| "panic".into()));
        }
    }
    let mut sends = vec![];
    while let Ok(b) = rx.try_recv() {
        sends.push(b);
    }
    let capped = s.capped;
    let mut send_q = s.sends;
    if stopped && !capped && sends.len() == s.lines.len() + 1 {
        // stopped while the first line of depth D+1 was about to be printed: its board had
        // already been sent; drop it so that boards and lines correspond one to one
        sends.pop();
        send_q.pop();
    }
    SbRun { sends, send_q, lines: s.lines, queries: s.queries, nodes: s.nodes, panicked, stopped, capped, table_after: table_counts(&t) }
}

pub fn same_board(a: &BoardState, b: &BoardState) -> bool {
    a.board == b.board
        && a.to_move == b.to_move
        && a.pawn_double_move == b.pawn_double_move
        && a.white_king_location == b.white_king_location
        && a.black_king_location == b.black_king_location
        && a.white_king_side_castle == b.white_king_side_castle
        && a.white_queen_side_castle == b.white_queen_side_castle
        && a.black_king_side_castle == b.black_king_side_castle
        && a.black_queen_side_castle == b.black_queen_side_castle
        && a.last_move == b.last_move
        && a.pawn_promotion == b.pawn_promotion
        && a.zobrist_key == b.zobrist_key
}

/// engine board + repetition record for a referee game (start + moves), built through the
/// engine's own `position` handler so that keys are the engine's
pub fn setup(start: &Pos, moves: &[Mv], z: &ZobristHasher) -> Option<(BoardState, DrawTable)> {
    let fen = start.fen();
    let mut cmd: Vec<String> = vec!["position".into(), "fen".into()];
    cmd.extend(fen.split(' ').map(|s| s.to_string()));
    if !moves.is_empty() {
        cmd.push("moves".into());
        cmd.extend(moves.iter().map(|m| m.uci()));
    }
    let refs: Vec<&str> = cmd.iter().map(|s| s.as_str()).collect();
    let mut t = DrawTable::new();
    let b = std::panic::catch_unwind(std::panic::AssertUnwindSafe(|| crate::uci::verif_play_out_position(&refs, z, &mut t))).ok()?;
    Some((b, t))
}

#[derive(Clone, Debug, PartialEq)]
pub struct Info {
    pub pv: Vec<String>,
    pub depth: u32,
    pub nodes: u64,
    /// Ok(cp) or Err(mate n)
    pub score: Result<i64, i64>,
    pub time: u64,
}

/// strict grammar: info pv( move)+ depth D nodes N score (cp X|mate Y) time T
pub fn parse_info_strict(line: &str) -> Option<Info> {
    let t: Vec<&str> = line.split(' ').collect();
    if t.len() < 10 || t[0] != "info" || t[1] != "pv" {
        return None;
    }
    let mut i = 2;
    let mut pv = vec![];
    while i < t.len() && t[i] != "depth" {
        let m = t[i].as_bytes();
        // long algebraic; a promotion letter is proper UCI (the engine as shipped omits it)
        if (m.len() != 4 && m.len() != 5) || !(b'a'..=b'h').contains(&m[0]) || !(b'1'..=b'8').contains(&m[1]) || !(b'a'..=b'h').contains(&m[2]) || !(b'1'..=b'8').contains(&m[3]) || (m.len() == 5 && !b"qrbn".contains(&m[4])) {
            return None;
        }
        pv.push(t[i].to_string());
        i += 1;
    }
    if pv.is_empty() || t.len() != i + 9 {
        return None;
    }
    let num = |s: &str, neg: bool| -> Option<i64> {
        let body = if neg && s.starts_with('-') { &s[1..] } else { s };
        if body.is_empty() || !body.bytes().all(|b| b.is_ascii_digit()) || (body.len() > 1 && body.starts_with('0')) {
            return None;
        }
        s.parse().ok()
    };
    if t[i] != "depth" || t[i + 2] != "nodes" || t[i + 4] != "score" || t[i + 7] != "time" {
        return None;
    }
    let depth = num(t[i + 1], false)? as u32;
    let nodes = num(t[i + 3], false)? as u64;
    let val = num(t[i + 6], true)?;
    let score = match t[i + 5] {
        "cp" => Ok(val),
        "mate" => Err(val),
        _ => return None,
    };
    let time = num(t[i + 8], false)? as u64;
    Some(Info { pv, depth, nodes, score, time })
}

pub fn strip_time(line: &str) -> &str {
    match line.rfind(" time ") {
        Some(i) if line.starts_with("info ") => &line[..i],
        _ => line,
    }
}

/// C18's per-line and per-search oracle. Returns (class, detail) of the first problem.
pub fn check_info_lines(lines: &[String], root: &Pos) -> Option<(String, String)> {
    let legal = root.legal_moves();
    let mut prev: Option<Info> = None;
    for l in lines {
        if !l.starts_with("info") {
            continue;
        }
        let inf = match parse_info_strict(l) {
            Some(i) => i,
            None => return Some(("grammar".into(), format!("not of the form `info pv <moves> depth D nodes N score (cp X|mate Y) time T`: {:?}", l))),
        };
        if inf.depth < 1 {
            return Some(("depth-zero".into(), l.clone()));
        }
        match inf.score {
            Err(0) => return Some(("mate-zero".into(), l.clone())),
            Ok(x) => {
                if x.abs() >= 9_999_998 {
                    return Some(("sentinel-score".into(), format!("the aborted-search sentinel reached a reported score: {:?}", l)));
                }
                if x.abs() > 100_000 {
                    return Some(("score-beyond-mate-magnitude".into(), l.clone()));
                }
            }
            Err(y) => {
                if y.abs() > 60 {
                    return Some(("mate-distance-absurd".into(), l.clone()));
                }
            }
        }
        let first = &inf.pv[0];
        let (f, t) = (r::parse_sq(&first[0..2]).unwrap(), r::parse_sq(&first[2..4]).unwrap());
        let ok = match Mv::parse(first) {
            // with a promotion letter the whole move must be legal; without one, from/to
            Some(mv) if mv.promo != 0 => legal.contains(&mv),
            _ => legal.iter().any(|m| m.from == f && m.to == t),
        };
        if !ok {
            return Some(("first-pv-move-illegal".into(), format!("{:?} in {}", l, root.fen())));
        }
        if let Some(p) = &prev {
            if inf.depth < p.depth {
                return Some(("depth-decreased".into(), format!("{:?} after depth {}", l, p.depth)));
            }
            if inf.depth == p.depth {
                // strictly increasing within one depth; a mate line outranks any cp line in its
                // direction; two mate lines compare by distance and may tie
                let rank = |s: &Result<i64, i64>| -> (i64, i64) {
                    match s {
                        Ok(cp) => (0, *cp),
                        Err(n) if *n > 0 => (1, -*n),
                        Err(n) => (-1, -*n),
                    }
                };
                let (a, b) = (rank(&p.score), rank(&inf.score));
                let ok = if a.0 == b.0 && a.0 != 0 { b.1 >= a.1 } else { b > a };
                if !ok {
                    return Some(("not-increasing-within-depth".into(), format!("{:?} does not improve on {:?}", inf.score, p.score)));
                }
            }
        }
        prev = Some(inf);
    }
    None
}

pub const MATE: i32 = 100_000;

/// the engine's documented encoding of a value as `cp X` / `mate N`
pub fn encode_score(v: i32) -> Result<i64, i64> {
    if v >= MATE - 15 {
        Err(((MATE - v + 1) / 2) as i64)
    } else if v <= -MATE + 15 {
        Err(((MATE + v) / -2) as i64)
    } else {
        Ok(v as i64)
    }
}

/// Plain full-window negamax over the engine's own generator and evaluation with exactly
/// the leaf rules C12 lists. `table` holds game + current line counts.
pub struct Reference<'a> {
    pub z: &'a ZobristHasher,
    pub table: std::collections::HashMap<u64, u32>,
    pub nodes: u64,
    pub rep_on_pv: bool,
    pub ext_used: bool,
    /// the un-pruned reference can explode (capture-rich quiescence): give up beyond this
    pub cap: u64,
    pub aborted: bool,
}

impl<'a> Reference<'a> {
    pub fn q(&mut self, b: &BoardState) -> i32 {
        self.nodes += 1;
        if self.nodes > self.cap {
            self.aborted = true;
            return 0;
        }
        let stand = crate::evaluation::get_evaluation(b);
        let mut best = stand;
        let caps = crate::move_generation::generate_moves(b, crate::move_generation::MoveGenerationMode::CapturesOnly, self.z);
        for m in &caps {
            let s = -self.q(m);
            if s > best {
                best = s;
            }
        }
        best
    }

    pub fn negamax(&mut self, b: &BoardState, mut depth: u32, ply: i32) -> i32 {
        self.nodes += 1;
        if self.nodes > self.cap {
            self.aborted = true;
            return 0;
        }
        let c = *self.table.get(&b.zobrist_key).unwrap_or(&0);
        if c >= 2 {
            self.rep_on_pv = true;
            return 0;
        }
        if depth == 0 {
            if crate::move_generation::is_check(b, b.to_move) {
                depth = 1;
                self.ext_used = true;
            } else {
                return self.q(b);
            }
        }
        *self.table.entry(b.zobrist_key).or_insert(0) += 1;
        let moves = crate::move_generation::generate_moves(b, crate::move_generation::MoveGenerationMode::AllMoves, self.z);
        let v = if moves.is_empty() {
            if crate::move_generation::is_check(b, b.to_move) {
                -(MATE - ply)
            } else {
                0
            }
        } else {
            let mut best = i32::MIN + 1;
            for m in &moves {
                let s = -self.negamax(m, depth - 1, ply + 1);
                if s > best {
                    best = s;
                }
            }
            best
        };
        *self.table.get_mut(&b.zobrist_key).unwrap() -= 1;
        v
    }
}
