//! Referee: an independent implementation of the rules of chess, written from the FIDE
//! text. 8x8 board, squares 0..63 (a1 = 0, h1 = 7, a8 = 56), no sentinels. It shares no
//! code with /repo/src. "Attacked" is computed forwards from the attackers. Its trust
//! anchor is published perft counts plus hand-written rule vignettes (see `self_check`).

pub const EMPTY: u8 = 0;
pub const PAWN: u8 = 1;
pub const KNIGHT: u8 = 2;
pub const BISHOP: u8 = 3;
pub const ROOK: u8 = 4;
pub const QUEEN: u8 = 5;
pub const KING: u8 = 6;
pub const BLACK: u8 = 8;

#[inline]
pub fn kind(p: u8) -> u8 {
    p & 7
}
#[inline]
pub fn is_white(p: u8) -> bool {
    p != 0 && p & BLACK == 0
}
#[inline]
pub fn is_black(p: u8) -> bool {
    p & BLACK != 0
}
#[inline]
pub fn file_of(s: u8) -> i32 {
    (s & 7) as i32
}
#[inline]
pub fn rank_of(s: u8) -> i32 {
    (s >> 3) as i32
}
#[inline]
pub fn sq(file: i32, rank: i32) -> u8 {
    (rank * 8 + file) as u8
}
#[inline]
fn on_board(f: i32, r: i32) -> bool {
    (0..8).contains(&f) && (0..8).contains(&r)
}

#[derive(Clone, PartialEq, Eq, Hash, Debug)]
pub struct Pos {
    pub sq: [u8; 64],
    pub white_to_move: bool,
    /// K, Q, k, q
    pub castle: [bool; 4],
    pub ep: Option<u8>,
    pub halfmove: u32,
    pub fullmove: u32,
}

#[derive(Clone, Copy, PartialEq, Eq, Hash, Debug, PartialOrd, Ord)]
pub struct Mv {
    pub from: u8,
    pub to: u8,
    /// 0 or KNIGHT/BISHOP/ROOK/QUEEN
    pub promo: u8,
}

pub fn sq_name(s: u8) -> String {
    let f = (b'a' + (s & 7)) as char;
    let r = (b'1' + (s >> 3)) as char;
    format!("{}{}", f, r)
}

pub fn parse_sq(t: &str) -> Option<u8> {
    let b = t.as_bytes();
    if b.len() != 2 || !(b'a'..=b'h').contains(&b[0]) || !(b'1'..=b'8').contains(&b[1]) {
        return None;
    }
    Some((b[1] - b'1') * 8 + (b[0] - b'a'))
}

impl Mv {
    pub fn uci(&self) -> String {
        let mut s = format!("{}{}", sq_name(self.from), sq_name(self.to));
        match self.promo {
            KNIGHT => s.push('n'),
            BISHOP => s.push('b'),
            ROOK => s.push('r'),
            QUEEN => s.push('q'),
            _ => {}
        }
        s
    }
    pub fn parse(t: &str) -> Option<Mv> {
        if t.len() != 4 && t.len() != 5 || !t.is_ascii() {
            return None;
        }
        let from = parse_sq(&t[0..2])?;
        let to = parse_sq(&t[2..4])?;
        let promo = if t.len() == 5 {
            match t.as_bytes()[4] {
                b'n' => KNIGHT,
                b'b' => BISHOP,
                b'r' => ROOK,
                b'q' => QUEEN,
                _ => return None,
            }
        } else {
            0
        };
        Some(Mv { from, to, promo })
    }
}

pub const START_FEN: &str = "rnbqkbnr/pppppppp/8/8/8/8/PPPPPPPP/RNBQKBNR w KQkq - 0 1";

fn piece_char(p: u8) -> char {
    let c = match kind(p) {
        PAWN => 'p',
        KNIGHT => 'n',
        BISHOP => 'b',
        ROOK => 'r',
        QUEEN => 'q',
        KING => 'k',
        _ => '?',
    };
    if is_white(p) {
        c.to_ascii_uppercase()
    } else {
        c
    }
}

fn char_piece(c: char) -> Option<u8> {
    let k = match c.to_ascii_lowercase() {
        'p' => PAWN,
        'n' => KNIGHT,
        'b' => BISHOP,
        'r' => ROOK,
        'q' => QUEEN,
        'k' => KING,
        _ => return None,
    };
    Some(if c.is_ascii_uppercase() { k } else { k | BLACK })
}

impl Pos {
    pub fn empty() -> Pos {
        Pos { sq: [0; 64], white_to_move: true, castle: [false; 4], ep: None, halfmove: 0, fullmove: 1 }
    }

    pub fn start() -> Pos {
        Pos::from_fen(START_FEN).unwrap()
    }

    /// Strict FEN parser: six fields separated by single blanks, eight ranks of exactly
    /// eight squares, digits 1..8 never adjacent-summing beyond 8, side w|b, castling a
    /// non-empty subset of KQkq in that order or "-", ep "-" or a square on rank 3/6,
    /// two non-negative decimal counters (fullmove >= 1).
    pub fn from_fen(fen: &str) -> Result<Pos, String> {
        let f: Vec<&str> = fen.split(' ').collect();
        if f.len() != 6 {
            return Err("need six fields".into());
        }
        let mut p = Pos::empty();
        let rows: Vec<&str> = f[0].split('/').collect();
        if rows.len() != 8 {
            return Err("need eight ranks".into());
        }
        for (i, row) in rows.iter().enumerate() {
            let rank = 7 - i as i32;
            let mut file = 0;
            let mut prev_digit = false;
            for c in row.chars() {
                if let Some(d) = c.to_digit(10) {
                    if d == 0 || d > 8 || prev_digit {
                        return Err("bad digit".into());
                    }
                    file += d as i32;
                    prev_digit = true;
                } else if let Some(pc) = char_piece(c) {
                    if file >= 8 {
                        return Err("rank too long".into());
                    }
                    p.sq[sq(file, rank) as usize] = pc;
                    file += 1;
                    prev_digit = false;
                } else {
                    return Err("bad piece char".into());
                }
            }
            if file != 8 {
                return Err("rank not eight squares".into());
            }
        }
        p.white_to_move = match f[1] {
            "w" => true,
            "b" => false,
            _ => return Err("bad side".into()),
        };
        if f[2] != "-" {
            if f[2].is_empty() {
                return Err("empty castling".into());
            }
            let order = "KQkq";
            let mut last = -1i32;
            for c in f[2].chars() {
                let idx = match order.find(c) {
                    Some(i) => i as i32,
                    None => return Err("bad castling char".into()),
                };
                if idx <= last {
                    return Err("castling order".into());
                }
                last = idx;
                p.castle[idx as usize] = true;
            }
        }
        if f[3] != "-" {
            let s = parse_sq(f[3]).ok_or("bad ep square")?;
            let want_rank = if p.white_to_move { 5 } else { 2 };
            if rank_of(s) != want_rank {
                return Err("ep rank".into());
            }
            p.ep = Some(s);
        }
        let num = |t: &str| -> Result<u32, String> {
            if t.is_empty() || t.len() > 9 || !t.bytes().all(|b| b.is_ascii_digit()) {
                return Err("bad counter".into());
            }
            if t.len() > 1 && t.starts_with('0') {
                return Err("leading zero".into());
            }
            t.parse::<u32>().map_err(|e| e.to_string())
        };
        p.halfmove = num(f[4])?;
        p.fullmove = num(f[5])?;
        if p.fullmove == 0 {
            return Err("fullmove 0".into());
        }
        Ok(p)
    }

    pub fn placement_fen(&self) -> String {
        let mut s = String::new();
        for rank in (0..8).rev() {
            let mut run = 0;
            for file in 0..8 {
                let pc = self.sq[sq(file, rank) as usize];
                if pc == 0 {
                    run += 1;
                } else {
                    if run > 0 {
                        s.push_str(&run.to_string());
                        run = 0;
                    }
                    s.push(piece_char(pc));
                }
            }
            if run > 0 {
                s.push_str(&run.to_string());
            }
            if rank > 0 {
                s.push('/');
            }
        }
        s
    }

    pub fn castle_str(&self) -> String {
        let mut c = String::new();
        for (i, ch) in "KQkq".chars().enumerate() {
            if self.castle[i] {
                c.push(ch);
            }
        }
        if c.is_empty() {
            c.push('-');
        }
        c
    }

    pub fn fen(&self) -> String {
        format!(
            "{} {} {} {} {} {}",
            self.placement_fen(),
            if self.white_to_move { "w" } else { "b" },
            self.castle_str(),
            self.ep.map(sq_name).unwrap_or_else(|| "-".into()),
            self.halfmove,
            self.fullmove
        )
    }

    /// canonical key for counting distinct positions: placement, side, rights, ep target
    pub fn canon(&self) -> String {
        format!(
            "{} {} {} {}",
            self.placement_fen(),
            if self.white_to_move { "w" } else { "b" },
            self.castle_str(),
            self.ep.map(sq_name).unwrap_or_else(|| "-".into())
        )
    }

    pub fn canon_hash(&self) -> u64 {
        crate::rng::fnv(0, self.canon().as_bytes())
    }

    pub fn king_sq(&self, white: bool) -> Option<u8> {
        let want = if white { KING } else { KING | BLACK };
        (0..64u8).find(|&s| self.sq[s as usize] == want)
    }

    /// does the piece standing on `from` attack `target` (rules of movement only)
    fn piece_attacks(&self, from: u8, target: u8) -> bool {
        let p = self.sq[from as usize];
        if p == 0 || from == target {
            return false;
        }
        let df = file_of(target) - file_of(from);
        let dr = rank_of(target) - rank_of(from);
        match kind(p) {
            PAWN => {
                let fwd = if is_white(p) { 1 } else { -1 };
                dr == fwd && df.abs() == 1
            }
            KNIGHT => (df.abs() == 1 && dr.abs() == 2) || (df.abs() == 2 && dr.abs() == 1),
            KING => df.abs() <= 1 && dr.abs() <= 1,
            BISHOP => df.abs() == dr.abs() && self.clear_between(from, target),
            ROOK => (df == 0 || dr == 0) && self.clear_between(from, target),
            QUEEN => (df == 0 || dr == 0 || df.abs() == dr.abs()) && self.clear_between(from, target),
            _ => false,
        }
    }

    fn clear_between(&self, a: u8, b: u8) -> bool {
        let sf = (file_of(b) - file_of(a)).signum();
        let sr = (rank_of(b) - rank_of(a)).signum();
        let mut f = file_of(a) + sf;
        let mut r = rank_of(a) + sr;
        while (f, r) != (file_of(b), rank_of(b)) {
            if self.sq[sq(f, r) as usize] != 0 {
                return false;
            }
            f += sf;
            r += sr;
        }
        true
    }

    /// is `target` attacked by any piece of the given colour (king included)
    pub fn attacked(&self, target: u8, by_white: bool) -> bool {
        for s in 0..64u8 {
            let p = self.sq[s as usize];
            if p != 0 && is_white(p) == by_white && self.piece_attacks(s, target) {
                return true;
            }
        }
        false
    }

    pub fn attackers(&self, target: u8, by_white: bool) -> Vec<u8> {
        (0..64u8)
            .filter(|&s| {
                let p = self.sq[s as usize];
                p != 0 && is_white(p) == by_white && self.piece_attacks(s, target)
            })
            .collect()
    }

    pub fn in_check(&self, white: bool) -> bool {
        match self.king_sq(white) {
            Some(k) => self.attacked(k, !white),
            None => false,
        }
    }

    fn pseudo_moves(&self, out: &mut Vec<Mv>) {
        let w = self.white_to_move;
        for from in 0..64u8 {
            let p = self.sq[from as usize];
            if p == 0 || is_white(p) != w {
                continue;
            }
            let (f0, r0) = (file_of(from), rank_of(from));
            let own = |q: u8| q != 0 && is_white(q) == w;
            match kind(p) {
                PAWN => {
                    let fwd = if w { 1 } else { -1 };
                    let start_rank = if w { 1 } else { 6 };
                    let last_rank = if w { 7 } else { 0 };
                    let mut push = |to: u8, out: &mut Vec<Mv>| {
                        if rank_of(to) == last_rank {
                            for pr in [QUEEN, ROOK, BISHOP, KNIGHT] {
                                out.push(Mv { from, to, promo: pr });
                            }
                        } else {
                            out.push(Mv { from, to, promo: 0 });
                        }
                    };
                    let r1 = r0 + fwd;
                    if on_board(f0, r1) {
                        let to = sq(f0, r1);
                        if self.sq[to as usize] == 0 {
                            push(to, out);
                            if r0 == start_rank {
                                let to2 = sq(f0, r0 + 2 * fwd);
                                if self.sq[to2 as usize] == 0 {
                                    out.push(Mv { from, to: to2, promo: 0 });
                                }
                            }
                        }
                        for df in [-1, 1] {
                            if on_board(f0 + df, r1) {
                                let to = sq(f0 + df, r1);
                                let q = self.sq[to as usize];
                                if q != 0 && is_white(q) != w {
                                    push(to, out);
                                } else if q == 0 && self.ep == Some(to) {
                                    // en passant: the captured pawn stands beside us
                                    let cap = sq(f0 + df, r0);
                                    let cp = self.sq[cap as usize];
                                    if kind(cp) == PAWN && is_white(cp) != w {
                                        out.push(Mv { from, to, promo: 0 });
                                    }
                                }
                            }
                        }
                    }
                }
                KNIGHT => {
                    for (df, dr) in [(1, 2), (2, 1), (2, -1), (1, -2), (-1, -2), (-2, -1), (-2, 1), (-1, 2)] {
                        if on_board(f0 + df, r0 + dr) {
                            let to = sq(f0 + df, r0 + dr);
                            if !own(self.sq[to as usize]) {
                                out.push(Mv { from, to, promo: 0 });
                            }
                        }
                    }
                }
                KING => {
                    for df in -1..=1 {
                        for dr in -1..=1 {
                            if (df, dr) != (0, 0) && on_board(f0 + df, r0 + dr) {
                                let to = sq(f0 + df, r0 + dr);
                                if !own(self.sq[to as usize]) {
                                    out.push(Mv { from, to, promo: 0 });
                                }
                            }
                        }
                    }
                }
                k => {
                    let dirs: &[(i32, i32)] = match k {
                        BISHOP => &[(1, 1), (1, -1), (-1, 1), (-1, -1)],
                        ROOK => &[(1, 0), (-1, 0), (0, 1), (0, -1)],
                        _ => &[(1, 1), (1, -1), (-1, 1), (-1, -1), (1, 0), (-1, 0), (0, 1), (0, -1)],
                    };
                    for (df, dr) in dirs {
                        let (mut f, mut r) = (f0 + df, r0 + dr);
                        while on_board(f, r) {
                            let to = sq(f, r);
                            let q = self.sq[to as usize];
                            if q == 0 {
                                out.push(Mv { from, to, promo: 0 });
                            } else {
                                if !own(q) {
                                    out.push(Mv { from, to, promo: 0 });
                                }
                                break;
                            }
                            f += df;
                            r += dr;
                        }
                    }
                }
            }
        }
    }

    fn castling_moves(&self, out: &mut Vec<Mv>) {
        let w = self.white_to_move;
        let rank = if w { 0 } else { 7 };
        let king = if w { KING } else { KING | BLACK };
        let rook = if w { ROOK } else { ROOK | BLACK };
        let e = sq(4, rank);
        if self.sq[e as usize] != king {
            return;
        }
        let (ks, qs) = if w { (self.castle[0], self.castle[1]) } else { (self.castle[2], self.castle[3]) };
        if ks
            && self.sq[sq(7, rank) as usize] == rook
            && self.sq[sq(5, rank) as usize] == 0
            && self.sq[sq(6, rank) as usize] == 0
            && !self.attacked(e, !w)
            && !self.attacked(sq(5, rank), !w)
            && !self.attacked(sq(6, rank), !w)
        {
            out.push(Mv { from: e, to: sq(6, rank), promo: 0 });
        }
        if qs
            && self.sq[sq(0, rank) as usize] == rook
            && self.sq[sq(1, rank) as usize] == 0
            && self.sq[sq(2, rank) as usize] == 0
            && self.sq[sq(3, rank) as usize] == 0
            && !self.attacked(e, !w)
            && !self.attacked(sq(3, rank), !w)
            && !self.attacked(sq(2, rank), !w)
        {
            out.push(Mv { from: e, to: sq(2, rank), promo: 0 });
        }
    }

    pub fn is_castling(&self, m: Mv) -> bool {
        kind(self.sq[m.from as usize]) == KING && (file_of(m.to) - file_of(m.from)).abs() == 2
    }

    pub fn is_ep_capture(&self, m: Mv) -> bool {
        kind(self.sq[m.from as usize]) == PAWN
            && file_of(m.from) != file_of(m.to)
            && self.sq[m.to as usize] == 0
    }

    pub fn is_capture(&self, m: Mv) -> bool {
        self.sq[m.to as usize] != 0 || self.is_ep_capture(m)
    }

    /// Play a (pseudo-legal) move: placement, side, rights, ep target, counters.
    pub fn apply(&self, m: Mv) -> Pos {
        let mut n = self.clone();
        let p = self.sq[m.from as usize];
        let w = is_white(p);
        let capture = self.is_capture(m);
        if self.is_ep_capture(m) {
            let cap = sq(file_of(m.to), rank_of(m.from));
            n.sq[cap as usize] = 0;
        }
        n.sq[m.from as usize] = 0;
        n.sq[m.to as usize] = if m.promo != 0 { m.promo | (p & BLACK) } else { p };
        if self.is_castling(m) {
            let rank = rank_of(m.from);
            if file_of(m.to) == 6 {
                n.sq[sq(5, rank) as usize] = n.sq[sq(7, rank) as usize];
                n.sq[sq(7, rank) as usize] = 0;
            } else {
                n.sq[sq(3, rank) as usize] = n.sq[sq(0, rank) as usize];
                n.sq[sq(0, rank) as usize] = 0;
            }
        }
        // rights: king move, anything leaving or landing on a corner
        if kind(p) == KING {
            if w {
                n.castle[0] = false;
                n.castle[1] = false;
            } else {
                n.castle[2] = false;
                n.castle[3] = false;
            }
        }
        for s in [m.from, m.to] {
            match s {
                7 => n.castle[0] = false,
                0 => n.castle[1] = false,
                63 => n.castle[2] = false,
                56 => n.castle[3] = false,
                _ => {}
            }
        }
        // ep target after every double step
        n.ep = None;
        if kind(p) == PAWN && (rank_of(m.to) - rank_of(m.from)).abs() == 2 {
            n.ep = Some(sq(file_of(m.from), (rank_of(m.from) + rank_of(m.to)) / 2));
        }
        n.white_to_move = !self.white_to_move;
        n.halfmove = if kind(p) == PAWN || capture { 0 } else { self.halfmove + 1 };
        if !self.white_to_move {
            n.fullmove = self.fullmove + 1;
        }
        n
    }

    /// The legal moves: pseudo-legal, made on a copy, rejected if the mover's king is
    /// attacked afterwards; castling by its own rule.
    pub fn legal_moves(&self) -> Vec<Mv> {
        let mut ps = Vec::with_capacity(48);
        self.pseudo_moves(&mut ps);
        let w = self.white_to_move;
        let mut out = Vec::with_capacity(ps.len() + 2);
        for m in ps {
            let n = self.apply(m);
            if !n.in_check(w) {
                out.push(m);
            }
        }
        self.castling_moves(&mut out);
        out
    }

    pub fn legal_captures(&self) -> Vec<Mv> {
        self.legal_moves().into_iter().filter(|m| self.is_capture(*m)).collect()
    }

    pub fn is_terminal(&self) -> bool {
        self.legal_moves().is_empty()
    }
    pub fn is_checkmate(&self) -> bool {
        self.in_check(self.white_to_move) && self.legal_moves().is_empty()
    }
    pub fn is_stalemate(&self) -> bool {
        !self.in_check(self.white_to_move) && self.legal_moves().is_empty()
    }

    /// C01's definition of a legal position, verbatim.
    pub fn is_legal_position(&self) -> bool {
        let mut wk = 0;
        let mut bk = 0;
        for s in 0..64u8 {
            let p = self.sq[s as usize];
            if p == KING {
                wk += 1;
            }
            if p == (KING | BLACK) {
                bk += 1;
            }
            if kind(p) == PAWN && (rank_of(s) == 0 || rank_of(s) == 7) {
                return false;
            }
        }
        if wk != 1 || bk != 1 {
            return false;
        }
        // side not to move not in check
        if self.in_check(!self.white_to_move) {
            return false;
        }
        // castling rights only with king and rook on their home squares
        let need = [(0usize, 4u8, KING, 7u8, ROOK), (1, 4, KING, 0, ROOK), (2, 60, KING | BLACK, 63, ROOK | BLACK), (3, 60, KING | BLACK, 56, ROOK | BLACK)];
        for (i, ksq, k, rsq, r) in need {
            if self.castle[i] && (self.sq[ksq as usize] != k || self.sq[rsq as usize] != r) {
                return false;
            }
        }
        // ep target only directly behind a pawn that could just have double-stepped
        if let Some(e) = self.ep {
            let (f, r) = (file_of(e), rank_of(e));
            if self.white_to_move {
                // black just moved: target on rank 6 (index 5), pawn on rank 5 (index 4), origin rank 7 empty
                if r != 5
                    || self.sq[e as usize] != 0
                    || self.sq[sq(f, 4) as usize] != (PAWN | BLACK)
                    || self.sq[sq(f, 6) as usize] != 0
                {
                    return false;
                }
            } else if r != 2
                || self.sq[e as usize] != 0
                || self.sq[sq(f, 3) as usize] != PAWN
                || self.sq[sq(f, 1) as usize] != 0
            {
                return false;
            }
        }
        true
    }

    pub fn perft(&self, depth: u32) -> u64 {
        if depth == 0 {
            return 1;
        }
        let ms = self.legal_moves();
        if depth == 1 {
            return ms.len() as u64;
        }
        ms.iter().map(|m| self.apply(*m).perft(depth - 1)).sum()
    }

    pub fn piece_count(&self) -> usize {
        self.sq.iter().filter(|&&p| p != 0).count()
    }
}

/// Is the side to move able to force mate within `n` of its own moves?
pub fn mates_in(p: &Pos, n: u32) -> bool {
    if n == 0 {
        return false;
    }
    for m in p.legal_moves() {
        let c = p.apply(m);
        if is_mated_in(&c, n - 1) {
            return true;
        }
    }
    false
}

/// Is the side to move mated within `n` further moves of the opponent against every
/// defence (n = 0: it is checkmated now)?
pub fn is_mated_in(p: &Pos, n: u32) -> bool {
    let ms = p.legal_moves();
    if ms.is_empty() {
        return p.in_check(p.white_to_move);
    }
    if n == 0 {
        return false;
    }
    for m in ms {
        let c = p.apply(m);
        if !mates_in(&c, n) {
            return false;
        }
    }
    true
}

pub struct PerftCase {
    pub fen: &'static str,
    pub counts: &'static [u64],
}

/// Published node counts (chessprogramming.org "Perft Results").
pub const PERFT_CASES: &[PerftCase] = &[
    PerftCase { fen: START_FEN, counts: &[20, 400, 8902, 197281, 4865609] },
    PerftCase { fen: "r3k2r/p1ppqpb1/bn2pnp1/3PN3/1p2P3/2N2Q1p/PPPBBPPP/R3K2R w KQkq - 0 1", counts: &[48, 2039, 97862, 4085603] },
    PerftCase { fen: "8/2p5/3p4/KP5r/1R3p1k/8/4P1P1/8 w - - 0 1", counts: &[14, 191, 2812, 43238, 674624] },
    PerftCase { fen: "r3k2r/Pppp1ppp/1b3nbN/nP6/BBP1P3/q4N2/Pp1P2PP/R2Q1RK1 w kq - 0 1", counts: &[6, 264, 9467, 422333] },
    PerftCase { fen: "r2q1rk1/pP1p2pp/Q4n2/bbp1p3/Np6/1B3NBn/pPPP1PPP/R3K2R b KQ - 0 1", counts: &[6, 264, 9467, 422333] },
    PerftCase { fen: "rnbq1k1r/pp1Pbppp/2p5/8/2B5/8/PPP1NnPP/RNBQK2R w KQ - 1 8", counts: &[44, 1486, 62379, 2103487] },
    PerftCase { fen: "r4rk1/1pp1qppp/p1np1n2/2b1p1B1/2B1P1b1/P1NP1N2/1PP1QPPP/R4RK1 w - - 0 10", counts: &[46, 2079, 89890, 3894594] },
];

fn has(p: &Pos, m: &str) -> bool {
    let mv = Mv::parse(m).unwrap();
    p.legal_moves().contains(&mv)
}

/// Referee self-check: published perft counts to `depth` plus rule vignettes written from
/// the FIDE text. Returns Err(description) on the first mismatch.
pub fn self_check(depth: usize) -> Result<u64, String> {
    let mut nodes = 0u64;
    for c in PERFT_CASES {
        let p = Pos::from_fen(c.fen)?;
        if !p.is_legal_position() {
            return Err(format!("perft position judged illegal: {}", c.fen));
        }
        if p.fen() != c.fen {
            return Err(format!("fen round trip: {} -> {}", c.fen, p.fen()));
        }
        for (d, want) in c.counts.iter().enumerate().take(depth) {
            let got = p.perft(d as u32 + 1);
            nodes += got;
            if got != *want {
                return Err(format!("perft({}) of {} = {} want {}", d + 1, c.fen, got, want));
            }
        }
    }
    let v = |fen: &str| Pos::from_fen(fen).unwrap();
    let checks: Vec<(&str, bool)> = vec![
        // castling next to the enemy king: g1 attacked by king on g2/h2, f1 by king on g2
        ("K side castle into king-attacked g1", !has(&v("8/8/8/8/8/8/6k1/4K2R w K - 0 1"), "e1g1")),
        ("K side castle, enemy king h2 attacks g1", !has(&v("8/8/8/8/8/8/7k/4K2R w K - 0 1"), "e1g1")),
        ("K side castle fine with enemy king far", has(&v("8/8/8/8/8/7k/8/4K2R w K - 0 1"), "e1g1")),
        ("Q side castle through king-attacked d1", !has(&v("8/8/8/8/8/8/2k5/R3K3 w Q - 0 1"), "e1c1")),
        ("Q side castle with b1 attacked is legal", has(&v("8/8/8/8/8/8/k7/R3K3 w Q - 0 1"), "e1c1")),
        ("b1 attacked by rook does not stop O-O-O", has(&v("1r2k3/8/8/8/8/8/8/R3K3 w Q - 0 1"), "e1c1")),
        ("d1 attacked by rook stops O-O-O", !has(&v("3rk3/8/8/8/8/8/8/R3K3 w Q - 0 1"), "e1c1")),
        ("castle out of check forbidden", !has(&v("4k3/8/8/8/8/8/4r3/R3K2R w KQ - 0 1"), "e1g1")),
        ("black O-O through attacked f8 forbidden", !has(&v("4k2r/8/8/8/8/8/8/4KR2 b k - 0 1"), "e8g8")),
        ("black O-O fine", has(&v("4k2r/8/8/8/8/8/8/4K3 b k - 0 1"), "e8g8")),
        ("black O-O-O with enemy king on c7 forbidden", !has(&v("r3k3/2K5/8/8/8/8/8/8 b q - 0 1"), "e8c8")),
        // en passant pins
        ("ep pinned along the rank", !has(&v("8/8/8/KPp4r/8/8/8/4k3 w - c6 0 1"), "b5c6")),
        ("ep not pinned", has(&v("8/8/8/1Pp5/8/8/8/K3k3 w - c6 0 1"), "b5c6")),
        ("ep pinned on the file", !has(&v("4r3/8/8/3pP3/8/8/8/4K2k w - d6 0 1"), "e5d6")),
        ("ep pinned on the diagonal", !has(&v("7b/8/8/3pP3/8/2K5/8/7k w - d6 0 1"), "e5d6")),
        ("ep removes the checker", has(&v("8/8/8/3pP3/4K3/8/8/7k w - d6 0 1"), "e5d6")),
        ("ep target without capturer yields no ep", v("8/8/8/3p4/8/8/8/K6k w - d6 0 1").legal_moves().iter().all(|m| sq_name(m.to) != "d6")),
        // promotion
        ("promotion fans out to four", v("8/P7/8/8/8/8/8/K6k w - - 0 1").legal_moves().iter().filter(|m| m.promo != 0).count() == 4),
        ("promotion out of check by capture", has(&v("1r5k/P7/8/8/8/8/8/1K6 w - - 0 1"), "a7b8q")),
        ("promotion push illegal while in check", !has(&v("1r5k/P7/8/8/8/8/8/1K6 w - - 0 1"), "a7a8q")),
        // double check: only king moves
        ("double check only king moves", v("4k3/8/8/8/8/5n2/4r3/4K2R w K - 0 1").legal_moves().iter().all(|m| m.from == 4)),
        // rights
        ("capturing an unmoved rook removes the right", !v("r3k2r/8/8/8/8/8/8/R3K2R w KQkq - 0 1").apply(Mv::parse("h1h8").unwrap()).castle[2]),
        ("rook capture removes own right too", !v("r3k2r/8/8/8/8/8/8/R3K2R w KQkq - 0 1").apply(Mv::parse("h1h8").unwrap()).castle[0]),
        ("king move removes both rights", { let n = v("r3k2r/8/8/8/8/8/8/R3K2R w KQkq - 0 1").apply(Mv::parse("e1e2").unwrap()); !n.castle[0] && !n.castle[1] && n.castle[2] && n.castle[3] }),
        ("castling moves the rook", v("r3k2r/8/8/8/8/8/8/R3K2R w KQkq - 0 1").apply(Mv::parse("e1c1").unwrap()).placement_fen() == "r3k2r/8/8/8/8/8/8/2KR3R"),
        ("double step sets ep", v(START_FEN).apply(Mv::parse("e2e4").unwrap()).ep == parse_sq("e3")),
        ("single step clears ep", v("rnbqkbnr/pppppppp/8/8/4P3/8/PPPP1PPP/RNBQKBNR b KQkq e3 0 1").apply(Mv::parse("e7e6").unwrap()).ep.is_none()),
        ("ep capture removes the pawn", v("8/8/8/1Pp5/8/8/8/K3k3 w - c6 0 1").apply(Mv::parse("b5c6").unwrap()).placement_fen() == "8/8/2P5/8/8/8/8/K3k3"),
        // mate / stalemate
        ("back rank mate", v("6rk/5Npp/8/8/8/8/8/K7 b - - 0 1").is_checkmate()),
        ("stalemate", v("7k/5Q2/6K1/8/8/8/8/8 b - - 0 1").is_stalemate()),
        ("mate in one found", mates_in(&v("6k1/5ppp/8/8/8/8/8/R6K w - - 0 1"), 1)),
        ("no mate in one", !mates_in(&v("6k1/5pp1/8/8/8/8/8/R6K w - - 0 1"), 1)),
        ("mate in two (two rooks)", mates_in(&v("7k/8/8/8/8/8/R7/1R5K w - - 0 1"), 2) && !mates_in(&v("7k/8/8/8/8/8/R7/1R5K w - - 0 1"), 1)),
        // legality predicate
        ("ep without pawn is illegal position", !v("8/8/8/8/8/8/8/K6k w - d6 0 1").is_legal_position()),
        ("side not to move in check is illegal", !v("4k3/8/8/8/8/8/4R3/4K3 w - - 0 1").is_legal_position()),
        ("pawn on last rank illegal", !v("P3k3/8/8/8/8/8/8/4K3 w - - 0 1").is_legal_position()),
        ("rights without rook illegal", !v("4k3/8/8/8/8/8/8/4K3 w K - 0 1").is_legal_position()),
    ];
    for (name, ok) in checks {
        if !ok {
            return Err(format!("rule vignette failed: {}", name));
        }
    }
    Ok(nodes)
}
