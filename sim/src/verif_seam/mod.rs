//! The seam: everything the engine can observe besides its arguments goes through here when
//! it is built with --cfg walleye_verif. Three modes, selected per OS thread:
//!
//!  * Plain     no context installed: the clock stands still at 0, output is dropped (or
//!              captured if a capture buffer was opened), channels are plain std channels.
//!              Used by the single-threaded state-machine walks (S-C).
//!  * Scripted  S-B: one thread calls get_best_move directly; the clock answers "in time"
//!              for the first k queries and "out of time" from then on; output, sends and
//!              the query index at which each happened are captured.
//!  * Sim       S-A: the thread is a simulated thread of one simulated engine process run
//!              by `kernel` (discrete-event time, one runner at a time).
pub mod kernel;

use crate::board::BoardState;
use crate::draw_table::DrawTable;
use kernel::SimThread;
use std::cell::RefCell;

pub const NS_PER_MS: u64 = 1_000_000;

/// Capture of a scripted (S-B) run.
#[derive(Default, Clone)]
pub struct Scripted {
    /// queries with index >= expire_at answer "far in the future"
    pub expire_at: u64,
    pub queries: u64,
    pub nodes: u64,
    /// (query index at the time, line)
    pub lines: Vec<(u64, String)>,
    /// query index at each channel send
    pub sends: Vec<u64>,
    /// abort the run (by unwinding) when a line with this depth is about to be emitted
    pub stop_at_depth: Option<u32>,
    /// abort the run when nodes exceed this
    pub node_cap: u64,
    /// set when the run was aborted by the node cap (as opposed to the depth line)
    pub capped: bool,
}

pub struct ScriptedStop;

pub enum Ctx {
    Plain { capture: Option<Vec<String>> },
    Scripted(Scripted),
    Sim(SimThread),
}

thread_local! {
    pub static CTX: RefCell<Ctx> = RefCell::new(Ctx::Plain { capture: None });
    pub static LAST_PANIC: RefCell<Option<String>> = RefCell::new(None);
}

/// far-future offset used by the scripted clock once it has expired (ns)
const SCRIPTED_FAR: u64 = 4_000_000_000_000_000_000;

/// run `f` on this thread's simulated-thread context, if it has one
pub fn with_sim<R>(f: impl FnOnce(&mut SimThread) -> R) -> Option<R> {
    CTX.with(|c| match c.try_borrow_mut() {
        Ok(mut g) => match &mut *g {
            Ctx::Sim(t) => Some(f(t)),
            _ => None,
        },
        Err(_) => None,
    })
}

pub fn install(ctx: Ctx) -> Ctx {
    CTX.with(|c| std::mem::replace(&mut *c.borrow_mut(), ctx))
}

pub fn take() -> Ctx {
    install(Ctx::Plain { capture: None })
}

/// Install the quiet panic hook once per process: records message and location in a
/// thread-local for the harness, prints nothing.
pub fn install_panic_hook() {
    use std::sync::Once;
    static ONCE: Once = Once::new();
    ONCE.call_once(|| {
        std::panic::set_hook(Box::new(|info| {
            let msg = if let Some(s) = info.payload().downcast_ref::<&str>() {
                (*s).to_string()
            } else if let Some(s) = info.payload().downcast_ref::<String>() {
                s.clone()
            } else {
                "<non-string panic>".to_string()
            };
            let loc = info
                .location()
                .map(|l| format!("{}:{}", l.file(), l.line()))
                .unwrap_or_else(|| "?".into());
            LAST_PANIC.with(|p| *p.borrow_mut() = Some(format!("{} @ {}", msg, loc)));
        }));
    });
}

pub fn last_panic() -> Option<String> {
    LAST_PANIC.with(|p| p.borrow_mut().take())
}

// ------------------------------------------------------------------------------------ time

pub mod time {
    pub use std::time::Duration;

    #[derive(Copy, Clone, PartialEq, Eq, PartialOrd, Ord, Debug)]
    pub struct Instant(pub u64); // virtual nanoseconds

    impl Instant {
        pub fn now() -> Instant {
            super::CTX.with(|c| match &mut *c.borrow_mut() {
                super::Ctx::Plain { .. } => Instant(0),
                super::Ctx::Scripted(s) => {
                    let idx = s.queries;
                    s.queries += 1;
                    if idx >= s.expire_at {
                        Instant(super::SCRIPTED_FAR + idx * 1000)
                    } else {
                        Instant(idx * 1000)
                    }
                }
                super::Ctx::Sim(t) => Instant(t.clock_read()),
            })
        }
        pub fn duration_since(&self, earlier: Instant) -> Duration {
            Duration::from_nanos(self.0.saturating_sub(earlier.0))
        }
        pub fn elapsed(&self) -> Duration {
            Instant::now().duration_since(*self)
        }
        pub fn saturating_duration_since(&self, earlier: Instant) -> Duration {
            self.duration_since(earlier)
        }
        pub fn checked_duration_since(&self, earlier: Instant) -> Option<Duration> {
            if self.0 >= earlier.0 {
                Some(Duration::from_nanos(self.0 - earlier.0))
            } else {
                None
            }
        }
        pub fn checked_add(&self, d: Duration) -> Option<Instant> {
            u64::try_from(d.as_nanos()).ok().and_then(|n| self.0.checked_add(n)).map(Instant)
        }
    }
    impl std::ops::Add<Duration> for Instant {
        type Output = Instant;
        fn add(self, d: Duration) -> Instant {
            Instant(self.0.saturating_add(u64::try_from(d.as_nanos()).unwrap_or(u64::MAX)))
        }
    }
    impl std::ops::Sub<Duration> for Instant {
        type Output = Instant;
        fn sub(self, d: Duration) -> Instant {
            Instant(self.0.saturating_sub(u64::try_from(d.as_nanos()).unwrap_or(u64::MAX)))
        }
    }
    impl std::ops::Sub<Instant> for Instant {
        type Output = Duration;
        fn sub(self, o: Instant) -> Duration {
            self.duration_since(o)
        }
    }
}

// ------------------------------------------------------------------------------------ work

/// H6: called once per searched node
#[inline]
pub fn work(n: u64) {
    CTX.with(|c| match &mut *c.borrow_mut() {
        Ctx::Plain { .. } => {}
        Ctx::Scripted(s) => {
            s.nodes += n;
            if s.nodes > s.node_cap {
                s.capped = true;
                std::panic::resume_unwind(Box::new(ScriptedStop));
            }
        }
        Ctx::Sim(t) => t.work(n),
    })
}

// ------------------------------------------------------------------------------------ stdout

pub fn emit(line: &str) {
    let stop = CTX.with(|c| match &mut *c.borrow_mut() {
        Ctx::Plain { capture } => {
            if let Some(v) = capture {
                v.push(line.to_string());
            }
            false
        }
        Ctx::Scripted(s) => {
            if let Some(d) = s.stop_at_depth {
                if let Some(ld) = info_depth(line) {
                    if ld >= d {
                        return true;
                    }
                }
            }
            s.lines.push((s.queries, line.to_string()));
            false
        }
        Ctx::Sim(t) => {
            t.emit(line);
            false
        }
    });
    if stop {
        std::panic::resume_unwind(Box::new(ScriptedStop));
    }
}

pub fn info_depth(line: &str) -> Option<u32> {
    if !line.starts_with("info ") {
        return None;
    }
    let mut it = line.split(' ');
    while let Some(tok) = it.next() {
        if tok == "depth" {
            return it.next().and_then(|d| d.parse().ok());
        }
    }
    None
}

#[macro_export]
macro_rules! println {
    () => { $crate::verif_seam::emit("") };
    ($($arg:tt)*) => { $crate::verif_seam::emit(&format!($($arg)*)) };
}
#[macro_export]
macro_rules! print {
    ($($arg:tt)*) => { $crate::verif_seam::emit(&format!($($arg)*)) };
}

// ------------------------------------------------------------------------------------ stdin

/// Stands in a scripted input line for a byte sequence that is not valid UTF-8 (a flipped bit
/// on the pipe, a GUI writing Latin-1): `read_line` then behaves as std's does - the line is
/// consumed, the buffer is left as it was, and `Err(InvalidData)` is returned.
pub const INVALID_UTF8_MARK: char = '\u{F8FF}';

pub mod io {
    pub use std::io::{BufRead, Error, ErrorKind, Read, Result, Write};
    pub struct Stdin;
    pub struct StdinLock;
    pub fn stdin() -> Stdin {
        Stdin
    }
    impl Stdin {
        pub fn lock(&self) -> StdinLock {
            StdinLock
        }
        pub fn read_line(&self, buf: &mut String) -> std::io::Result<usize> {
            StdinLock.read_line(buf)
        }
    }
    /// stdout for code that writes through io::Write instead of println!
    pub struct Stdout {
        buf: Vec<u8>,
    }
    pub fn stdout() -> Stdout {
        Stdout { buf: vec![] }
    }
    impl Stdout {
        pub fn lock(&self) -> Stdout {
            Stdout { buf: vec![] }
        }
    }
    impl std::io::Write for Stdout {
        fn write(&mut self, data: &[u8]) -> std::io::Result<usize> {
            self.buf.extend_from_slice(data);
            while let Some(pos) = self.buf.iter().position(|b| *b == b'\n') {
                let line: Vec<u8> = self.buf.drain(..=pos).collect();
                let text = String::from_utf8_lossy(&line[..line.len() - 1]).to_string();
                super::emit(text.trim_end_matches('\r'));
            }
            Ok(data.len())
        }
        fn flush(&mut self) -> std::io::Result<()> {
            Ok(())
        }
    }
    impl Drop for Stdout {
        fn drop(&mut self) {
            if !self.buf.is_empty() && !std::thread::panicking() {
                let text = String::from_utf8_lossy(&self.buf).to_string();
                self.buf.clear();
                super::emit(&text);
            }
        }
    }
    pub struct Lines(StdinLock);
    impl Iterator for Lines {
        type Item = std::io::Result<String>;
        fn next(&mut self) -> Option<Self::Item> {
            let mut s = String::new();
            match self.0.read_line(&mut s) {
                Ok(0) => None,
                Ok(_) => {
                    if s.ends_with('\n') {
                        s.pop();
                        if s.ends_with('\r') {
                            s.pop();
                        }
                    }
                    Some(Ok(s))
                }
                Err(e) => Some(Err(e)),
            }
        }
    }
    impl Stdin {
        pub fn lines(self) -> Lines {
            Lines(StdinLock)
        }
    }
    impl StdinLock {
        pub fn lines(self) -> Lines {
            Lines(self)
        }
        /// std's contract: appends the bytes up to and including '\n'; at end of input the
        /// remaining bytes without one; then Ok(0) for ever.
        pub fn read_line(&mut self, buf: &mut String) -> std::io::Result<usize> {
            match super::with_sim(|t| t.read_line()) {
                Some(s) if s.contains(super::INVALID_UTF8_MARK) => Err(std::io::Error::new(std::io::ErrorKind::InvalidData, "stream did not contain valid UTF-8")),
                Some(s) => {
                    buf.push_str(&s);
                    Ok(s.len())
                }
                None => Ok(0),
            }
        }
    }
}

// ------------------------------------------------------------------------------------ process

pub mod process {
    pub struct SimExit(pub i32);
    pub fn exit(code: i32) -> ! {
        super::with_sim(|t| t.exit(code));
        std::panic::resume_unwind(Box::new(SimExit(code)))
    }
    pub fn id() -> u32 {
        4242
    }
}

// ------------------------------------------------------------------------------------ threads

pub mod thread {
    pub use std::time::Duration;

    pub struct JoinHandle<T> {
        child: Option<usize>,
        result: std::sync::mpsc::Receiver<T>,
    }
    impl<T> JoinHandle<T> {
        /// waits (in virtual time, 50 us steps) until the simulated thread has ended
        pub fn join(self) -> std::thread::Result<T> {
            if let Some(child) = self.child {
                loop {
                    let done = super::with_sim(|t| t.thread_finished(child)).unwrap_or(true);
                    if done {
                        break;
                    }
                    // sleeping is thread-local; the effect point is what lets the child run
                    super::with_sim(|t| {
                        t.sleep_raw(50_000);
                        t.effect_point();
                    });
                }
            }
            match self.result.try_recv() {
                Ok(v) => Ok(v),
                Err(_) => Err(Box::new("simulated thread panicked")),
            }
        }
        pub fn is_finished(&self) -> bool {
            match self.child {
                Some(c) => super::with_sim(|t| t.thread_finished(c)).unwrap_or(true),
                None => true,
            }
        }
    }

    pub fn spawn<F, T>(f: F) -> JoinHandle<T>
    where
        F: FnOnce() -> T + Send + 'static,
        T: Send + 'static,
    {
        let in_sim = super::CTX.with(|c| matches!(&*c.borrow(), super::Ctx::Sim(_)));
        let (rtx, rrx) = std::sync::mpsc::channel::<T>();
        let mut child = None;
        if in_sim {
            let b: Box<dyn FnOnce() + Send + 'static> = Box::new(move || {
                let v = f();
                let _ = rtx.send(v);
            });
            child = super::with_sim(move |t| t.spawn(b)).flatten();
        } else {
            // outside a simulation (not used by any check): run inline
            let _ = rtx.send(f());
        }
        JoinHandle { child, result: rrx }
    }

    pub fn sleep(d: Duration) {
        super::with_sim(|t| t.sleep(d.as_nanos() as u64));
    }
}

// ------------------------------------------------------------------------------------ channel

pub mod mpsc {
    pub use std::sync::mpsc::{RecvError, RecvTimeoutError, SendError, TryRecvError};
    use std::sync::atomic::{AtomicU64, Ordering};
    use std::sync::Arc;

    #[derive(Default)]
    pub struct ChanInfo {
        pub sent: AtomicU64,
        pub received: AtomicU64,
        pub disconnected_polls: AtomicU64,
    }

    pub struct Sender<T> {
        inner: std::sync::mpsc::Sender<T>,
        info: Arc<ChanInfo>,
    }
    pub struct Receiver<T> {
        inner: std::sync::mpsc::Receiver<T>,
        info: Arc<ChanInfo>,
    }

    pub fn channel<T>() -> (Sender<T>, Receiver<T>) {
        let (tx, rx) = std::sync::mpsc::channel();
        let info = Arc::new(ChanInfo::default());
        (Sender { inner: tx, info: info.clone() }, Receiver { inner: rx, info })
    }

    use super::kernel::SeamDescribe;
    use super::with_sim;

    fn in_sim() -> bool {
        super::CTX.with(|c| match c.try_borrow() {
            Ok(g) => matches!(&*g, super::Ctx::Sim(_)),
            Err(_) => false,
        })
    }

    /// what the event log says about a message: boards by their move descriptor (the messages
    /// of the search thread), anything else (a second channel some refactor introduced: lines
    /// from a reader thread, a table handed back ...) by its type, marked `other:`
    fn describe<T: 'static>(t: &T) -> String {
        let any = t as &dyn std::any::Any;
        if let Some(b) = any.downcast_ref::<crate::board::BoardState>() {
            return b.seam_describe();
        }
        if let Some(x) = any.downcast_ref::<String>() {
            return format!("other:String:{}", x.chars().take(24).collect::<String>());
        }
        if let Some(x) = any.downcast_ref::<Option<String>>() {
            return format!("other:Option<String>:{}", x.as_deref().map(|v| v.chars().take(24).collect::<String>()).unwrap_or_else(|| "None".into()));
        }
        format!("other:{}", std::any::type_name::<T>())
    }

    impl<T: 'static> Sender<T> {
        pub fn send(&self, t: T) -> Result<(), SendError<T>> {
            if in_sim() {
                // scheduling point: the send happens at this thread's virtual time
                with_sim(|s| s.before_send());
                let desc = describe(&t);
                let r = self.inner.send(t);
                let n = self.info.sent.fetch_add(1, Ordering::SeqCst);
                let ok = r.is_ok();
                with_sim(|s| s.note_send(n, ok, desc));
                return r;
            }
            if (&t as &dyn std::any::Any).is::<crate::board::BoardState>() {
                super::CTX.with(|c| {
                    if let super::Ctx::Scripted(s) = &mut *c.borrow_mut() {
                        s.sends.push(s.queries);
                    }
                });
            }
            self.info.sent.fetch_add(1, Ordering::SeqCst);
            self.inner.send(t)
        }
    }
    impl<T> Clone for Sender<T> {
        fn clone(&self) -> Self {
            Sender { inner: self.inner.clone(), info: self.info.clone() }
        }
    }
    impl<T> Drop for Sender<T> {
        fn drop(&mut self) {
            with_sim(|s| {
                s.effect_point_nounwind();
                s.note("sender-drop");
            });
        }
    }
    impl<T> Receiver<T> {
        pub fn try_recv(&self) -> Result<T, TryRecvError> {
            if in_sim() {
                with_sim(|s| s.effect_point());
                let r = self.inner.try_recv();
                match &r {
                    Ok(_) => {
                        self.info.received.fetch_add(1, Ordering::SeqCst);
                        with_sim(|s| s.note_recv(0));
                    }
                    Err(TryRecvError::Empty) => {
                        with_sim(|s| s.note_recv(1));
                    }
                    Err(TryRecvError::Disconnected) => {
                        let polls = self.info.disconnected_polls.fetch_add(1, Ordering::SeqCst) + 1;
                        with_sim(|s| s.note_recv(2));
                        if self.info.received.load(Ordering::SeqCst) == 0 && polls >= 50 {
                            // every sender is gone, nothing was ever received, and the
                            // caller keeps polling: it can never get a message
                            with_sim(|s| s.hang("polling a channel whose senders are all gone and that never delivered a message"));
                        }
                    }
                }
                return r;
            }
            let r = self.inner.try_recv();
            if r.is_ok() {
                self.info.received.fetch_add(1, Ordering::SeqCst);
            }
            r
        }
        /// blocking receive, emulated by polling in virtual time (50 us steps); a channel whose
        /// senders are all gone returns Err like std's
        pub fn recv(&self) -> Result<T, RecvError> {
            if !in_sim() {
                return self.inner.recv();
            }
            loop {
                match self.try_recv() {
                    Ok(v) => return Ok(v),
                    Err(TryRecvError::Disconnected) => return Err(RecvError),
                    Err(TryRecvError::Empty) => {
                        with_sim(|s| s.sleep_raw(50_000));
                    }
                }
            }
        }
        pub fn recv_timeout(&self, timeout: std::time::Duration) -> Result<T, std::sync::mpsc::RecvTimeoutError> {
            use std::sync::mpsc::RecvTimeoutError;
            if !in_sim() {
                return self.inner.recv_timeout(timeout);
            }
            let total = u64::try_from(timeout.as_nanos()).unwrap_or(u64::MAX);
            let mut waited = 0u64;
            loop {
                match self.try_recv() {
                    Ok(v) => return Ok(v),
                    Err(TryRecvError::Disconnected) => return Err(RecvTimeoutError::Disconnected),
                    Err(TryRecvError::Empty) => {
                        if waited >= total {
                            // the blocking call as a whole oversleeps like one sleep would
                            with_sim(|s| s.sleep(0));
                            return Err(RecvTimeoutError::Timeout);
                        }
                        let step = 50_000.min(total - waited).max(1);
                        with_sim(|s| s.sleep_raw(step));
                        waited += step;
                    }
                }
            }
        }
    }
    impl<T> Drop for Receiver<T> {
        fn drop(&mut self) {
            with_sim(|s| {
                s.effect_point_nounwind();
                s.note("receiver-drop");
            });
        }
    }
}

// ------------------------------------------------------------------------------------ probes

/// H4: board and repetition record as the I/O thread holds them after `position` / `go`
pub fn probe_board(tag: &str, board: &BoardState, draw_table: &DrawTable) {
    let mut table: Vec<(u64, u8)> = draw_table.table.iter().map(|(k, v)| (*k, *v)).collect();
    table.sort();
    with_sim(|t| t.probe(tag, board.clone(), table));
}
