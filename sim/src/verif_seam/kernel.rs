//! Discrete-event kernel for S-A: one simulated engine process = one I/O thread + the
//! search threads it spawns + one scripted GUI. Simulated threads are real OS threads, but
//! parked; the kernel releases exactly one at a time, always the one whose pending shared
//! effect has the smallest virtual time, so who runs is never the OS's choice and one
//! scenario value is one exactly repeatable execution.
//!
//! Per-thread virtual time `lt` (ns) advances by the cost model: c_node per searched node
//! (H6), eps per seam call, sleeps by their duration plus injected oversleep. Shared effects
//! (channel send/try_recv/endpoint drop, stdout line, stdin read, spawn, thread end, exit)
//! enter the kernel and are performed in global virtual-time order. Clock reads and sleeps
//! are thread-local (they touch no shared state) and do not enter the kernel.

use crate::board::BoardState;
use std::collections::VecDeque;
use std::sync::{Arc, Condvar, Mutex, MutexGuard};

#[derive(Clone, Debug, PartialEq)]
pub enum Pat {
    Bestmove,
    Readyok,
    Uciok,
}

impl Pat {
    pub fn matches(&self, line: &str) -> bool {
        match self {
            Pat::Bestmove => line.starts_with("bestmove"),
            Pat::Readyok => line == "readyok",
            Pat::Uciok => line == "uciok",
        }
    }
    pub fn name(&self) -> &'static str {
        match self {
            Pat::Bestmove => "bestmove",
            Pat::Readyok => "readyok",
            Pat::Uciok => "uciok",
        }
    }
}

#[derive(Clone, Debug, PartialEq)]
pub enum GuiAction {
    /// raw bytes as written to the engine's stdin (normally ends in '\n')
    Send(String),
    WaitFor(Pat),
    Delay(u64),
    Close,
}

#[derive(Clone, Debug, PartialEq)]
pub enum Fault {
    /// search thread number `search` (by spawn order, 0-based) stalls `ns` at its node `node`
    StallSearch { search: usize, node: u64, ns: u64 },
    /// the I/O thread's `sleep` number `sleep` (0-based, whole session) oversleeps by `ns`
    OversleepIo { sleep: u64, ns: u64 },
    /// spawn number `spawn` starts its child `ns` late
    SpawnDelay { spawn: usize, ns: u64 },
    /// the whole process freezes for `ns` at `offset` ns after `go` number `go` is read
    PauseAll { go: usize, offset: u64, ns: u64 },
    /// search thread number `search` is descheduled for `ns` right before its `send`-th channel
    /// send (0-based), i.e. between the root's acceptance test and the hand-over
    StallBeforeSend { search: usize, send: u64, ns: u64 },
}

#[derive(Clone, Debug)]
pub struct SimConfig {
    pub c_node_ns: u64,
    pub eps_ns: u64,
    pub jitter_max_ns: u64,
    pub jitter_seed: u64,
    pub faults: Vec<Fault>,
    pub gui: Vec<GuiAction>,
    pub gui_latency_ns: u64,
    pub gui_timeout_ns: u64,
    pub ties: u64,
    pub max_nodes_per_search: u64,
    pub eof_spin_limit: u32,
    pub max_events: usize,
}

impl Default for SimConfig {
    fn default() -> Self {
        SimConfig {
            c_node_ns: 5_000,
            eps_ns: 1_000,
            jitter_max_ns: 0,
            jitter_seed: 0,
            faults: vec![],
            gui: vec![],
            gui_latency_ns: 50_000,
            gui_timeout_ns: 60_000_000_000,
            ties: 0,
            max_nodes_per_search: 3_000_000,
            eof_spin_limit: 64,
            max_events: 2_000_000,
        }
    }
}

#[derive(Clone, Debug, PartialEq)]
pub enum EndKind {
    Return,
    Panic(String),
    Aborted,
    Exit(i32),
}

#[derive(Clone, Debug, PartialEq)]
pub enum EvKind {
    GuiSend(String),
    GuiClose,
    ReadLine(String),
    ReadEof,
    Emit(String),
    Spawn(usize),
    ThreadEnd(EndKind),
    Send { seq: u64, ok: bool, desc: String },
    RecvOk,
    RecvEmpty,
    RecvDisc,
    Probe(usize),
    Note(String),
    FaultFired(String),
}

#[derive(Clone, Debug)]
pub struct Ev {
    pub t: u64,
    pub tid: usize,
    pub kind: EvKind,
}

#[derive(Clone, Debug, PartialEq)]
pub enum SimEnd {
    /// the I/O thread called process::exit
    Exit(i32),
    /// play_game_uci returned
    IoReturned,
    /// the I/O thread panicked = the process crashed
    IoPanicked(String),
    /// exact hang detection
    Hang(String),
    /// the GUI waited `gui_timeout_ns` of virtual time for a reply that never came
    GuiTimeout(String),
    /// the script is finished and the engine is blocked reading stdin
    ScriptDone,
    /// read_line returned Ok(0) `eof_spin_limit` times in a row and the engine keeps reading
    EofSpin,
    /// a search thread exceeded max_nodes_per_search
    Overrun,
    /// safety cap on the number of events
    EventCap,
    /// wall-clock watchdog (harness error)
    Watchdog,
}

pub struct ProbeSnap {
    pub tag: String,
    pub board: BoardState,
    pub table: Vec<(u64, u8)>,
}

#[derive(PartialEq, Clone, Copy, Debug)]
enum ThState {
    Ready,
    BlockedRead,
    Finished,
}

struct Th {
    lt: u64,
    state: ThState,
    cv: Arc<Condvar>,
    is_search: bool,
}

pub struct Kernel {
    pub cfg: SimConfig,
    th: Vec<Th>,
    current: Option<usize>,
    aborting: bool,
    pub done: bool,
    pub end: Option<SimEnd>,
    // gui
    gui_pc: usize,
    gui_t: u64,
    gui_wait_since: Option<u64>,
    gui_scan_from: usize,
    // stdin
    stdin: VecDeque<(u64, u8)>,
    closed_at: Option<u64>,
    eof_reads: u32,
    // stdout: (t, tid, line)
    pub out: Vec<(u64, usize, String)>,
    pub events: Vec<Ev>,
    pub probes: Vec<ProbeSnap>,
    // bookkeeping
    spawns: usize,
    searches: usize,
    gos: usize,
    io_sleeps_reported: u64,
    pause_gen: u64,
    pause: Option<(u64, u64)>,
    ties_used: u32,
    pub max_lt: u64,
    os_threads: Vec<std::thread::JoinHandle<()>>,
    pub search_nodes: Vec<u64>,
    done_cv: Arc<Condvar>,
}

pub struct Shared {
    k: Mutex<Kernel>,
    done_cv: Arc<Condvar>,
}

pub struct SimAbort;

/// the thread-local part of a simulated thread (fast path, no lock)
pub struct SimThread {
    shared: Arc<Shared>,
    pub id: usize,
    lt: u64,
    nodes: u64,
    c_node_ns: u64,
    eps_ns: u64,
    stalls: Vec<(u64, u64)>,
    oversleeps: Vec<(u64, u64)>,
    sleeps: u64,
    jitter_max: u64,
    jitter_state: u64,
    pause: Option<(u64, u64)>,
    pause_gen: u64,
    applied_gen: u64,
    max_nodes: u64,
    fired: Vec<String>,
    search_index: Option<usize>,
    send_stalls: Vec<(u64, u64)>,
    sends_started: u64,
}

pub trait SeamDescribe {
    fn seam_describe(&self) -> String;
}

impl SimThread {
    #[inline]
    fn advance(&mut self, d: u64) {
        self.lt = self.lt.saturating_add(d);
        if self.applied_gen < self.pause_gen {
            if let Some((tau, dur)) = self.pause {
                if self.lt >= tau {
                    self.lt += dur;
                    self.applied_gen = self.pause_gen;
                    self.fired.push(format!("pause_all +{}us", dur / 1000));
                }
            }
        }
    }

    pub fn clock_read(&mut self) -> u64 {
        self.advance(self.eps_ns);
        self.lt
    }

    #[inline]
    pub fn work(&mut self, n: u64) {
        self.nodes += n;
        let mut d = n * self.c_node_ns;
        if !self.stalls.is_empty() {
            let nodes = self.nodes;
            let mut extra = 0;
            self.stalls.retain(|(at, ns)| {
                if *at <= nodes {
                    extra += *ns;
                    false
                } else {
                    true
                }
            });
            if extra > 0 {
                self.fired.push(format!("stall_search +{}us at node {}", extra / 1000, nodes));
                d += extra;
            }
        }
        self.advance(d);
        if self.nodes > self.max_nodes {
            self.end_sim(SimEnd::Overrun);
        }
    }

    /// advance this thread's clock without jitter or oversleep faults (internal steps of an
    /// emulated blocking call; the call as a whole gets one jitter sample through `sleep(0)`)
    pub fn sleep_raw(&mut self, ns: u64) {
        self.advance(ns);
    }

    pub fn sleep(&mut self, ns: u64) {
        let idx = self.sleeps;
        self.sleeps += 1;
        let mut d = ns;
        if self.jitter_max > 0 {
            let j = crate::rng::splitmix(&mut self.jitter_state) % (self.jitter_max + 1);
            d += j;
        }
        if let Some(pos) = self.oversleeps.iter().position(|(i, _)| *i == idx) {
            let (_, extra) = self.oversleeps.remove(pos);
            d += extra;
            self.fired.push(format!("oversleep_io +{}us at sleep {}", extra / 1000, idx));
        }
        self.advance(d);
    }

    fn lock(&self) -> MutexGuard<'static, Kernel> {
        // SAFETY of lifetime: the Arc<Shared> outlives every guard because the SimThread
        // (which owns a clone) outlives the call. We transmute only the lifetime.
        let g = self.shared.k.lock().unwrap_or_else(|e| e.into_inner());
        unsafe { std::mem::transmute::<MutexGuard<'_, Kernel>, MutexGuard<'static, Kernel>>(g) }
    }

    /// Enter the kernel for a shared effect at this thread's virtual time: returns (holding
    /// the lock) once this thread is the one with the smallest virtual time.
    fn enter(&mut self, unwind_ok: bool) -> Option<MutexGuard<'static, Kernel>> {
        self.advance(self.eps_ns);
        let me = self.id;
        let mut k = self.lock();
        loop {
            if k.aborting {
                drop(k);
                if unwind_ok && !std::thread::panicking() {
                    std::panic::resume_unwind(Box::new(SimAbort));
                }
                return None;
            }
            // publish my time and pending fault reports
            k.th[me].lt = self.lt;
            if self.lt > k.max_lt {
                k.max_lt = self.lt;
            }
            for f in self.fired.drain(..) {
                k.events.push(Ev { t: self.lt, tid: me, kind: EvKind::FaultFired(f) });
            }
            // pick up a pause announced since my last visit
            if k.pause_gen > self.pause_gen {
                self.pause_gen = k.pause_gen;
                self.pause = k.pause;
                let before = self.lt;
                self.advance(0);
                if self.lt != before {
                    continue;
                }
            }
            if k.events.len() > k.cfg.max_events {
                k.finish_sim(SimEnd::EventCap, &self.shared);
                continue;
            }
            match k.next_runner() {
                Runner::Gui => {
                    k.gui_step();
                }
                Runner::Thread(t) if t == me => {
                    k.current = Some(me);
                    return Some(k);
                }
                Runner::Thread(t) => {
                    k.current = Some(t);
                    k.th[t].cv.notify_all();
                    let cv = k.th[me].cv.clone();
                    while k.current != Some(me) && !k.aborting {
                        k = cv.wait(k).unwrap_or_else(|e| e.into_inner());
                    }
                }
                Runner::Nobody => {
                    // cannot happen while I am Ready; defensive
                    k.finish_sim(SimEnd::ScriptDone, &self.shared);
                }
            }
        }
    }

    pub fn effect_point(&mut self) {
        let _ = self.enter(true);
    }

    /// scheduling point of a channel send, with the injected "descheduled right before the
    /// hand-over" stall
    pub fn before_send(&mut self) {
        let idx = self.sends_started;
        self.sends_started += 1;
        if let Some(pos) = self.send_stalls.iter().position(|(i, _)| *i == idx) {
            let (_, ns) = self.send_stalls.remove(pos);
            self.fired.push(format!("stall_before_send +{}us at send {}", ns / 1000, idx));
            self.advance(ns);
        }
        let _ = self.enter(true);
    }

    pub fn effect_point_nounwind(&mut self) {
        let _ = self.enter(false);
    }

    pub fn note(&mut self, what: &str) {
        let mut k = self.lock();
        if k.aborting {
            // the simulated process is gone; threads unwinding concurrently must not log
            return;
        }
        let t = self.lt;
        k.events.push(Ev { t, tid: self.id, kind: EvKind::Note(what.to_string()) });
    }

    pub fn note_send(&mut self, seq: u64, ok: bool, desc: String) {
        let mut k = self.lock();
        if k.aborting {
            return;
        }
        let t = self.lt;
        k.events.push(Ev { t, tid: self.id, kind: EvKind::Send { seq, ok, desc } });
    }

    pub fn note_recv(&mut self, what: u8) {
        let mut k = self.lock();
        if k.aborting {
            return;
        }
        let t = self.lt;
        let kind = match what {
            0 => EvKind::RecvOk,
            1 => EvKind::RecvEmpty,
            _ => EvKind::RecvDisc,
        };
        k.events.push(Ev { t, tid: self.id, kind });
    }

    pub fn emit(&mut self, line: &str) {
        if let Some(mut k) = self.enter(true) {
            let t = self.lt;
            k.out.push((t, self.id, line.to_string()));
            k.events.push(Ev { t, tid: self.id, kind: EvKind::Emit(line.to_string()) });
        }
    }

    pub fn probe(&mut self, tag: &str, board: BoardState, table: Vec<(u64, u8)>) {
        let mut k = self.lock();
        if k.aborting {
            return;
        }
        let idx = k.probes.len();
        k.probes.push(ProbeSnap { tag: tag.to_string(), board, table });
        let t = self.lt;
        k.events.push(Ev { t, tid: self.id, kind: EvKind::Probe(idx) });
    }

    fn end_sim(&mut self, end: SimEnd) -> ! {
        {
            let mut k = self.lock();
            k.th[self.id].lt = self.lt;
            k.finish_sim(end, &self.shared);
        }
        std::panic::resume_unwind(Box::new(SimAbort));
    }

    pub fn hang(&mut self, why: &str) {
        self.end_sim(SimEnd::Hang(why.to_string()));
    }

    pub fn exit(&mut self, code: i32) {
        if let Some(mut k) = self.enter(true) {
            let t = self.lt;
            k.events.push(Ev { t, tid: self.id, kind: EvKind::ThreadEnd(EndKind::Exit(code)) });
            k.finish_sim(SimEnd::Exit(code), &self.shared);
        }
    }

    pub fn read_line(&mut self) -> String {
        let me = self.id;
        loop {
            let mut k = match self.enter(true) {
                Some(k) => k,
                None => return String::new(),
            };
            match k.input_ready() {
                Some(arr) if arr <= self.lt => {
                    let line = k.take_line();
                    let t = self.lt;
                    if line.is_empty() {
                        k.eof_reads += 1;
                        k.events.push(Ev { t, tid: me, kind: EvKind::ReadEof });
                        if k.eof_reads >= k.cfg.eof_spin_limit {
                            drop(k);
                            self.end_sim(SimEnd::EofSpin);
                        }
                    } else {
                        k.events.push(Ev { t, tid: me, kind: EvKind::ReadLine(line.clone()) });
                        let cleaned = line.trim_start();
                        if cleaned.starts_with("go") && (cleaned.len() == 2 || cleaned[2..].starts_with(|c: char| c.is_whitespace())) {
                            k.go_read(t);
                        }
                    }
                    return line;
                }
                Some(arr) => {
                    // data arrives later than my clock: wait for it in virtual time
                    drop(k);
                    let d = arr - self.lt;
                    self.advance(d);
                }
                None => {
                    k.th[me].state = ThState::BlockedRead;
                    k.th[me].lt = self.lt;
                    // hand over; I am woken when input arrives (or the simulation ends)
                    loop {
                        if k.aborting {
                            drop(k);
                            std::panic::resume_unwind(Box::new(SimAbort));
                        }
                        if k.th[me].state == ThState::Ready && k.current == Some(me) {
                            break;
                        }
                        if k.current == Some(me) || k.current.is_none() {
                            // I hold the token but cannot run: let somebody else act
                            match k.next_runner() {
                                Runner::Gui => {
                                    k.gui_step();
                                    if k.th[me].state == ThState::Ready {
                                        // input arrived: compete again from the top
                                        k.current = Some(me);
                                        break;
                                    }
                                }
                                Runner::Thread(t) => {
                                    k.current = Some(t);
                                    k.th[t].cv.notify_all();
                                }
                                Runner::Nobody => {
                                    let end = k.idle_end();
                                    k.finish_sim(end, &self.shared);
                                }
                            }
                        } else {
                            let cv = k.th[me].cv.clone();
                            k = cv.wait(k).unwrap_or_else(|e| e.into_inner());
                        }
                    }
                    // woken with input available: my clock is at least the arrival time
                    let newlt = k.th[me].lt;
                    drop(k);
                    if newlt > self.lt {
                        let d = newlt - self.lt;
                        self.advance(d);
                    }
                }
            }
        }
    }

    pub fn thread_finished(&mut self, id: usize) -> bool {
        let k = self.lock();
        k.aborting || k.th.get(id).map(|t| t.state == ThState::Finished).unwrap_or(true)
    }

    pub fn spawn(&mut self, f: Box<dyn FnOnce() + Send + 'static>) -> Option<usize> {
        let shared = self.shared.clone();
        let mut k = match self.enter(true) {
            Some(k) => k,
            None => return None,
        };
        let child = k.th.len();
        let spawn_idx = k.spawns;
        k.spawns += 1;
        let search_idx = k.searches;
        k.searches += 1;
        let mut delay = 0;
        for fa in &k.cfg.faults {
            if let Fault::SpawnDelay { spawn, ns } = fa {
                if *spawn == spawn_idx {
                    delay += *ns;
                }
            }
        }
        let stalls: Vec<(u64, u64)> = k
            .cfg
            .faults
            .iter()
            .filter_map(|fa| match fa {
                Fault::StallSearch { search, node, ns } if *search == search_idx => Some((*node, *ns)),
                _ => None,
            })
            .collect();
        let send_stalls: Vec<(u64, u64)> = k
            .cfg
            .faults
            .iter()
            .filter_map(|fa| match fa {
                Fault::StallBeforeSend { search, send, ns } if *search == search_idx => Some((*send, *ns)),
                _ => None,
            })
            .collect();
        let t = self.lt;
        if delay > 0 {
            k.events.push(Ev { t, tid: self.id, kind: EvKind::FaultFired(format!("spawn_delay +{}us", delay / 1000)) });
        }
        k.events.push(Ev { t, tid: self.id, kind: EvKind::Spawn(child) });
        k.th.push(Th { lt: t + delay, state: ThState::Ready, cv: Arc::new(Condvar::new()), is_search: true });
        k.search_nodes.push(0);
        let mut st = SimThread {
            shared: shared.clone(),
            id: child,
            lt: t,
            nodes: 0,
            c_node_ns: k.cfg.c_node_ns,
            eps_ns: k.cfg.eps_ns,
            stalls,
            oversleeps: vec![],
            sleeps: 0,
            jitter_max: 0,
            jitter_state: 0,
            pause: self.pause,
            pause_gen: self.pause_gen,
            applied_gen: self.applied_gen,
            max_nodes: k.cfg.max_nodes_per_search,
            fired: vec![],
            search_index: Some(search_idx),
            send_stalls,
            sends_started: 0,
        };
        st.advance(delay);
        let handle = std::thread::Builder::new()
            .name(format!("sim-search-{}", child))
            .spawn(move || run_thread(st, f))
            .expect("spawn OS thread");
        k.os_threads.push(handle);
        Some(child)
    }
}

/// body of every simulated OS thread
fn run_thread(st: SimThread, f: Box<dyn FnOnce() + Send + 'static>) {
    let shared = st.shared.clone();
    let me = st.id;
    // wait for my first turn
    {
        let mut k = shared.k.lock().unwrap_or_else(|e| e.into_inner());
        let cv = k.th[me].cv.clone();
        while k.current != Some(me) && !k.aborting {
            k = cv.wait(k).unwrap_or_else(|e| e.into_inner());
        }
        if k.aborting {
            k.th[me].state = ThState::Finished;
            return;
        }
    }
    super::install(super::Ctx::Sim(st));
    let r = std::panic::catch_unwind(std::panic::AssertUnwindSafe(f));
    let ctx = super::take();
    let mut st = match ctx {
        super::Ctx::Sim(st) => st,
        _ => return,
    };
    let end = match r {
        Ok(()) => EndKind::Return,
        Err(p) => {
            if p.is::<SimAbort>() {
                EndKind::Aborted
            } else if let Some(e) = p.downcast_ref::<super::process::SimExit>() {
                EndKind::Exit(e.0)
            } else {
                EndKind::Panic(super::last_panic().unwrap_or_else(|| "panic".into()))
            }
        }
    };
    // thread end is a shared effect (its endpoints have been dropped by now, each at its
    // own effect point)
    let is_io = me == 0;
    match st.enter(false) {
        Some(mut k) => {
            let t = st.lt;
            if let Some(si) = st.search_index {
                k.search_nodes[si] = st.nodes;
            }
            if !matches!(end, EndKind::Exit(_)) {
                k.events.push(Ev { t, tid: me, kind: EvKind::ThreadEnd(end.clone()) });
            }
            k.th[me].state = ThState::Finished;
            if is_io {
                let e = match end {
                    EndKind::Return => SimEnd::IoReturned,
                    EndKind::Panic(m) => SimEnd::IoPanicked(m),
                    EndKind::Exit(c) => SimEnd::Exit(c),
                    EndKind::Aborted => SimEnd::ScriptDone,
                };
                k.finish_sim(e, &shared);
            } else {
                k.pass_on(&shared);
            }
        }
        None => {
            let mut k = shared.k.lock().unwrap_or_else(|e| e.into_inner());
            if let Some(si) = st.search_index {
                k.search_nodes[si] = st.nodes;
            }
            k.th[me].state = ThState::Finished;
            if is_io && k.end.is_none() {
                let e = match end {
                    EndKind::Return => SimEnd::IoReturned,
                    EndKind::Panic(m) => SimEnd::IoPanicked(m),
                    EndKind::Exit(c) => SimEnd::Exit(c),
                    EndKind::Aborted => SimEnd::ScriptDone,
                };
                k.finish_sim(e, &shared);
            }
        }
    }
}

enum Runner {
    Thread(usize),
    Gui,
    Nobody,
}

impl Kernel {
    fn gui_time(&self) -> Option<u64> {
        if self.gui_pc >= self.cfg.gui.len() {
            return None;
        }
        match &self.cfg.gui[self.gui_pc] {
            GuiAction::WaitFor(p) => {
                for i in self.gui_scan_from..self.out.len() {
                    if p.matches(&self.out[i].2) {
                        return Some(self.gui_t.max(self.out[i].0));
                    }
                }
                Some(self.gui_wait_since.unwrap_or(self.gui_t) + self.cfg.gui_timeout_ns)
            }
            _ => Some(self.gui_t),
        }
    }

    fn next_runner(&mut self) -> Runner {
        let mut best: Option<(u64, usize)> = None;
        let mut tie = false;
        for (i, t) in self.th.iter().enumerate() {
            if t.state == ThState::Ready {
                match best {
                    None => best = Some((t.lt, i)),
                    Some((bt, _)) if t.lt < bt => {
                        best = Some((t.lt, i));
                        tie = false;
                    }
                    Some((bt, bi)) if t.lt == bt => {
                        // tie between two threads: one bit of the scenario's tie stream
                        let bit = (self.cfg.ties >> (self.ties_used % 64)) & 1;
                        self.ties_used += 1;
                        tie = true;
                        if bit == 1 {
                            best = Some((bt, i));
                        } else {
                            best = Some((bt, bi));
                        }
                    }
                    _ => {}
                }
            }
        }
        let _ = tie;
        match (best, self.gui_time()) {
            (Some((lt, i)), Some(g)) => {
                if g <= lt {
                    Runner::Gui
                } else {
                    Runner::Thread(i)
                }
            }
            (Some((_, i)), None) => Runner::Thread(i),
            (None, Some(_)) => Runner::Gui,
            (None, None) => Runner::Nobody,
        }
    }

    fn idle_end(&self) -> SimEnd {
        SimEnd::ScriptDone
    }

    fn gui_step(&mut self) {
        let act = self.cfg.gui[self.gui_pc].clone();
        match act {
            GuiAction::Send(s) => {
                let t = self.gui_t;
                for b in s.bytes() {
                    self.stdin.push_back((t, b));
                }
                self.events.push(Ev { t, tid: usize::MAX, kind: EvKind::GuiSend(s) });
                self.gui_t += 10_000;
                self.gui_pc += 1;
            }
            GuiAction::Delay(d) => {
                self.gui_t += d;
                self.gui_pc += 1;
            }
            GuiAction::Close => {
                self.closed_at = Some(self.gui_t);
                self.events.push(Ev { t: self.gui_t, tid: usize::MAX, kind: EvKind::GuiClose });
                self.gui_pc += 1;
            }
            GuiAction::WaitFor(p) => {
                let mut found = None;
                for i in self.gui_scan_from..self.out.len() {
                    if p.matches(&self.out[i].2) {
                        found = Some(i);
                        break;
                    }
                }
                match found {
                    Some(i) => {
                        self.gui_scan_from = i + 1;
                        self.gui_t = self.gui_t.max(self.out[i].0) + self.cfg.gui_latency_ns;
                        self.gui_wait_since = None;
                        self.gui_pc += 1;
                    }
                    None => {
                        if self.gui_wait_since.is_none() {
                            // first visit: start waiting; gui_time() now reports the timeout instant
                            self.gui_wait_since = Some(self.gui_t);
                            // if we were called because the timeout instant is already the
                            // minimum, fall through on the next call
                            return;
                        }
                        // timeout fired
                        let since = self.gui_wait_since.unwrap();
                        self.gui_t = since + self.cfg.gui_timeout_ns;
                        self.end_internal(SimEnd::GuiTimeout(p.name().to_string()));
                    }
                }
            }
        }
        // wake a blocked reader if a complete line (or EOF) is now available
        if let Some(arr) = self.input_ready() {
            for t in self.th.iter_mut() {
                if t.state == ThState::BlockedRead {
                    t.state = ThState::Ready;
                    if t.lt < arr {
                        t.lt = arr;
                    }
                }
            }
        }
    }

    fn input_ready(&self) -> Option<u64> {
        for (t, b) in self.stdin.iter() {
            if *b == b'\n' {
                return Some(*t);
            }
        }
        self.closed_at
    }

    fn take_line(&mut self) -> String {
        let mut bytes = vec![];
        while let Some((_, b)) = self.stdin.pop_front() {
            bytes.push(b);
            if b == b'\n' {
                break;
            }
        }
        String::from_utf8(bytes).unwrap_or_default()
    }

    fn go_read(&mut self, t: u64) {
        let go = self.gos;
        self.gos += 1;
        for fa in self.cfg.faults.clone() {
            if let Fault::PauseAll { go: g, offset, ns } = fa {
                if g == go {
                    self.pause_gen += 1;
                    self.pause = Some((t + offset, ns));
                }
            }
        }
    }

    fn end_internal(&mut self, end: SimEnd) {
        if self.end.is_none() {
            self.end = Some(end);
        }
        self.aborting = true;
        self.done = true;
        self.current = None;
        for t in &self.th {
            t.cv.notify_all();
        }
        self.done_cv.notify_all();
    }

    fn finish_sim(&mut self, end: SimEnd, shared: &Arc<Shared>) {
        self.end_internal(end);
        shared.done_cv.notify_all();
    }

    /// a finished thread hands the token on
    fn pass_on(&mut self, shared: &Arc<Shared>) {
        loop {
            if self.aborting {
                shared.done_cv.notify_all();
                return;
            }
            match self.next_runner() {
                Runner::Gui => self.gui_step(),
                Runner::Thread(t) => {
                    self.current = Some(t);
                    self.th[t].cv.notify_all();
                    return;
                }
                Runner::Nobody => {
                    // only blocked readers left: is there anything more the GUI will do?
                    let end = self.idle_end();
                    self.finish_sim(end, shared);
                    return;
                }
            }
        }
    }
}

pub struct SimResult {
    pub end: SimEnd,
    pub events: Vec<Ev>,
    pub out: Vec<(u64, usize, String)>,
    pub probes: Vec<ProbeSnap>,
    pub virtual_ns: u64,
    pub search_nodes: Vec<u64>,
    pub gui_completed: usize,
}

impl SimResult {
    /// hash of the event log (everything observable), for determinism checks and replay
    pub fn log_hash(&self) -> u64 {
        let mut h = 0u64;
        for e in &self.events {
            let s = format!("{}|{}|{:?}\n", e.t, e.tid as i64, e.kind);
            h = crate::rng::fnv(h, s.as_bytes());
        }
        for p in &self.probes {
            let s = format!("{}|{}|{:?}\n", p.tag, p.board.zobrist_key, p.table);
            h = crate::rng::fnv(h, s.as_bytes());
        }
        h = crate::rng::fnv(h, format!("{:?}", self.end).as_bytes());
        h
    }
}

/// Run one simulated engine process to completion. `entry` is the body of the I/O thread
/// (normally `uci::play_game_uci`).
pub fn run_sim(cfg: SimConfig, entry: Box<dyn FnOnce() + Send + 'static>) -> SimResult {
    super::install_panic_hook();
    let io_oversleeps: Vec<(u64, u64)> = cfg
        .faults
        .iter()
        .filter_map(|f| match f {
            Fault::OversleepIo { sleep, ns } => Some((*sleep, *ns)),
            _ => None,
        })
        .collect();
    let done_cv = Arc::new(Condvar::new());
    let kernel = Kernel {
        th: vec![Th { lt: 0, state: ThState::Ready, cv: Arc::new(Condvar::new()), is_search: false }],
        current: Some(0),
        aborting: false,
        done: false,
        end: None,
        gui_pc: 0,
        gui_t: 0,
        gui_wait_since: None,
        gui_scan_from: 0,
        stdin: VecDeque::new(),
        closed_at: None,
        eof_reads: 0,
        out: vec![],
        events: vec![],
        probes: vec![],
        spawns: 0,
        searches: 0,
        gos: 0,
        io_sleeps_reported: 0,
        pause_gen: 0,
        pause: None,
        ties_used: 0,
        max_lt: 0,
        os_threads: vec![],
        search_nodes: vec![],
        done_cv: done_cv.clone(),
        cfg: cfg.clone(),
    };
    let shared = Arc::new(Shared { k: Mutex::new(kernel), done_cv });
    let st = SimThread {
        shared: shared.clone(),
        id: 0,
        lt: 0,
        nodes: 0,
        c_node_ns: cfg.c_node_ns,
        eps_ns: cfg.eps_ns,
        stalls: vec![],
        oversleeps: io_oversleeps,
        sleeps: 0,
        jitter_max: cfg.jitter_max_ns,
        jitter_state: cfg.jitter_seed,
        pause: None,
        pause_gen: 0,
        applied_gen: 0,
        max_nodes: u64::MAX,
        fired: vec![],
        search_index: None,
        send_stalls: vec![],
        sends_started: 0,
    };
    let io = std::thread::Builder::new()
        .name("sim-io".into())
        .spawn(move || run_thread(st, entry))
        .expect("spawn io thread");
    // wait for the end (wall-clock watchdog: harness error, never a verdict)
    {
        let mut k = shared.k.lock().unwrap_or_else(|e| e.into_inner());
        let deadline = std::time::Instant::now() + std::time::Duration::from_secs(300);
        while !k.done {
            let now = std::time::Instant::now();
            if now >= deadline {
                k.end_internal(SimEnd::Watchdog);
                break;
            }
            let (g, _) = shared
                .done_cv
                .wait_timeout(k, deadline - now)
                .unwrap_or_else(|e| e.into_inner());
            k = g;
        }
    }
    let watchdog = { shared.k.lock().unwrap_or_else(|e| e.into_inner()).end == Some(SimEnd::Watchdog) };
    if !watchdog {
        let _ = io.join();
        loop {
            let h = { shared.k.lock().unwrap_or_else(|e| e.into_inner()).os_threads.pop() };
            match h {
                Some(h) => {
                    let _ = h.join();
                }
                None => break,
            }
        }
    }
    let mut k = shared.k.lock().unwrap_or_else(|e| e.into_inner());
    let _ = (k.io_sleeps_reported, k.th.iter().filter(|t| t.is_search).count());
    SimResult {
        end: k.end.clone().unwrap_or(SimEnd::ScriptDone),
        events: std::mem::take(&mut k.events),
        out: std::mem::take(&mut k.out),
        probes: std::mem::take(&mut k.probes),
        virtual_ns: k.max_lt.max(k.gui_t),
        search_nodes: k.search_nodes.clone(),
        gui_completed: k.gui_pc,
    }
}
