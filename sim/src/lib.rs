//! Harness crate. The engine's own source files are mounted from /repo/src, so every check
//! compiles the current working tree of /repo, with --cfg walleye_verif (see build.rs).
#![allow(dead_code)]
#![allow(clippy::all)]

// textual-scope macros: shadow std's println!/print! for every module declared below
#[macro_use]
pub mod verif_seam;

#[path = "/repo/src/board.rs"]
pub mod board;
#[path = "/repo/src/draw_table.rs"]
pub mod draw_table;
#[path = "/repo/src/engine.rs"]
pub mod engine;
#[path = "/repo/src/evaluation.rs"]
pub mod evaluation;
#[path = "/repo/src/move_generation.rs"]
pub mod move_generation;
#[path = "/repo/src/search.rs"]
pub mod search;
#[path = "/repo/src/time_control.rs"]
pub mod time_control;
#[path = "/repo/src/uci.rs"]
pub mod uci;
#[path = "/repo/src/utils.rs"]
pub mod utils;
#[path = "/repo/src/zobrist.rs"]
pub mod zobrist;

pub mod bridge;
pub mod checks;
pub mod report;
pub mod sa;
pub mod sa_checks;
pub mod sa_meta;
pub mod c09;
pub mod c15;
pub mod sb;
pub mod sb_checks;
pub mod sc;
pub mod workload;
pub mod referee;
pub mod rng;
