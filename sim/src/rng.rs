//! SplitMix64 -> xoshiro256** PRNG. No dependency, no global state: one integer decides
//! everything. Scenario values are expanded from it up front; nothing draws during a run.

#[derive(Clone, Debug)]
pub struct Rng {
    s: [u64; 4],
}

pub fn splitmix(x: &mut u64) -> u64 {
    *x = x.wrapping_add(0x9E3779B97F4A7C15);
    let mut z = *x;
    z = (z ^ (z >> 30)).wrapping_mul(0xBF58476D1CE4E5B9);
    z = (z ^ (z >> 27)).wrapping_mul(0x94D049BB133111EB);
    z ^ (z >> 31)
}

/// sub-seed of run `r` of check `tag` under the master seed
pub fn mix(seed: u64, tag: &str, r: u64) -> u64 {
    let mut h = seed ^ 0x51_7C_C1_B7_27_22_0A_95;
    for b in tag.bytes() {
        h = (h ^ b as u64).wrapping_mul(0x100000001B3);
    }
    let mut x = h ^ r.wrapping_mul(0xD6E8FEB86659FD93);
    splitmix(&mut x);
    splitmix(&mut x)
}

impl Rng {
    pub fn new(seed: u64) -> Rng {
        let mut x = seed;
        let s = [splitmix(&mut x), splitmix(&mut x), splitmix(&mut x), splitmix(&mut x)];
        Rng { s }
    }
    pub fn next_u64(&mut self) -> u64 {
        let r = self.s[1].wrapping_mul(5).rotate_left(7).wrapping_mul(9);
        let t = self.s[1] << 17;
        self.s[2] ^= self.s[0];
        self.s[3] ^= self.s[1];
        self.s[1] ^= self.s[2];
        self.s[0] ^= self.s[3];
        self.s[2] ^= t;
        self.s[3] = self.s[3].rotate_left(45);
        r
    }
    /// uniform in [0, n)
    pub fn below(&mut self, n: u64) -> u64 {
        if n == 0 {
            return 0;
        }
        // multiply-shift; bias is negligible for our n
        ((self.next_u64() as u128 * n as u128) >> 64) as u64
    }
    pub fn range(&mut self, lo: i64, hi: i64) -> i64 {
        // inclusive
        lo + self.below((hi - lo + 1) as u64) as i64
    }
    pub fn chance(&mut self, num: u64, den: u64) -> bool {
        self.below(den) < num
    }
    pub fn pick<'a, T>(&mut self, xs: &'a [T]) -> &'a T {
        &xs[self.below(xs.len() as u64) as usize]
    }
    pub fn shuffle<T>(&mut self, xs: &mut [T]) {
        for i in (1..xs.len()).rev() {
            let j = self.below(i as u64 + 1) as usize;
            xs.swap(i, j);
        }
    }
    pub fn fork(&mut self) -> Rng {
        Rng::new(self.next_u64())
    }
}

/// FNV-1a 64 over bytes, used for event-log hashes and signatures
pub fn fnv(h: u64, bytes: &[u8]) -> u64 {
    let mut h = if h == 0 { 0xcbf29ce484222325 } else { h };
    for b in bytes {
        h ^= *b as u64;
        h = h.wrapping_mul(0x100000001b3);
    }
    h
}
