//! S-A checks: C03 (exactly one legal bestmove per go), C08 (bounded answer time,
//! responsiveness, terminal positions), C09 (latency vs the engine's own plan; plan vs the
//! policy model).
use crate::referee::{self as r, Mv, Pos};
use crate::report::{Acc, Violation};
use crate::rng::{fnv, Rng};
use crate::sa::{self, Scenario, Step, Trace, MS};
use crate::verif_seam::kernel::{EndKind, Fault, SimEnd, SimResult};
use crate::workload;
use serde_json::json;

#[derive(Clone, Copy, Default)]
pub struct Judge {
    pub c03: bool,
    pub c08: bool,
    pub c09: bool,
    /// stream view of C18: every info line between a go and its bestmove must be a line about
    /// that go's position (only judged in fault-free sessions with a GUI latency >= 1 ms)
    pub c18: bool,
}

/// near-mate / near-stalemate starting points; terminal positions are reached from them by
/// referee walks that prefer terminal successors (so "reached by moves") or given directly
pub const ENDGAME_SEEDS: &[&str] = &[
    "6k1/5ppp/8/8/8/8/8/R6K w - - 0 1",
    "7k/8/6K1/8/8/8/8/R7 w - - 0 1",
    "k7/8/1K6/8/8/8/8/7R w - - 0 1",
    "7k/8/5K2/8/8/8/8/6Q1 w - - 0 1",
    "8/8/8/8/8/5k2/6q1/7K w - - 0 1",
    "5rk1/5Npp/8/8/8/8/8/K7 w - - 0 1",
    "6rk/6pp/7N/8/8/8/8/K7 w - - 0 1",
    "7k/5Q2/5K2/8/8/8/8/8 w - - 0 1",
    "k7/2Q5/1K6/8/8/8/8/8 w - - 0 1",
    "8/8/8/8/8/1k6/2q5/K7 w - - 0 1",
    "7k/R7/8/8/8/8/8/1R5K w - - 0 1",
    "4k3/4P3/4K3/8/8/8/8/8 b - - 0 1",
    "rnbqkbnr/pppp1ppp/8/4p3/6P1/5P2/PPPPP2P/RNBQKBNR b KQkq - 0 2",
    "r1bqkb1r/pppp1ppp/2n2n2/4p2Q/2B1P3/8/PPPP1PPP/RNB1K1NR w KQkq - 4 4",
    "6k1/8/6K1/8/8/8/8/7R w - - 0 1",
    "K7/8/k7/8/8/8/8/1r6 b - - 0 1",
    "8/8/8/8/8/k7/p7/K7 w - - 0 1",
    "7K/5k2/8/8/8/8/8/6r1 b - - 0 1",
];

pub const TERMINAL_FENS: &[&str] = &[
    "6rk/5Npp/8/8/8/8/8/K7 b - - 0 1",
    "7k/5Q2/6K1/8/8/8/8/8 b - - 0 1",
    "R5k1/5ppp/8/8/8/8/8/7K b - - 0 1",
    "rnb1kbnr/pppp1ppp/8/4p3/6Pq/5P2/PPPPP2P/RNBQKBNR w KQkq - 1 3",
    "r1bqkb1r/pppp1Qpp/2n2n2/4p3/2B1P3/8/PPPP1PPP/RNB1K1NR b KQkq - 0 4",
    "8/8/8/8/8/1k6/1q6/K7 w - - 0 1",
    "k7/2Q5/1K6/8/8/8/8/8 b - - 0 1",
    "8/8/8/8/8/k7/p7/K7 w - - 0 1",
    "5k2/5P2/5K2/8/8/8/8/8 b - - 0 1",
];

/// a game that ends in a terminal position (mate or stalemate), if the walk finds one
pub fn gen_terminal_game(rng: &mut Rng) -> Option<workload::Game> {
    let start = Pos::from_fen(*rng.pick(ENDGAME_SEEDS)).ok()?;
    let mut p = start.clone();
    let mut moves = vec![];
    for _ in 0..14 {
        let ms = p.legal_moves();
        if ms.is_empty() {
            return Some(workload::Game { start, moves, source: "terminal-by-moves" });
        }
        // prefer a move that ends the game
        let mut chosen = None;
        for m in &ms {
            if p.apply(*m).is_terminal() {
                chosen = Some(*m);
                break;
            }
        }
        let m = chosen.unwrap_or_else(|| *rng.pick(&ms));
        p = p.apply(m);
        moves.push(m);
    }
    if p.is_terminal() {
        Some(workload::Game { start, moves, source: "terminal-by-moves" })
    } else {
        None
    }
}

pub struct SessionOpts {
    pub timed: bool,
    pub faulty: bool,
    pub terminal: bool,
    pub max_games: u64,
}

/// A GUI script: handshake, 1..max_games games each with a position command and 1..4 go
/// commands (some consecutive without a new position), isready probes, quit or EOF.
pub fn gen_session(rng: &mut Rng, o: &SessionOpts) -> Scenario {
    let mut sc = Scenario::new();
    sa::gen_knobs(rng, &mut sc, o.faulty);
    sc.line("uci");
    if rng.chance(1, 2) {
        sc.line("isready");
    }
    if rng.chance(1, 6) {
        sc.line("setoption name DebugLogLevel value Info");
    }
    let games = 1 + rng.below(o.max_games);
    let mut n_go = 0usize;
    let pipelined = o.faulty && rng.chance(1, 6);
    let mut previous: Option<(Pos, Vec<Mv>)> = None;
    for _ in 0..games {
        // a move taken back, or the same game continued: the next position command names the
        // previous start with a shorter or longer version of its move list, no ucinewgame between
        let related = match &previous {
            Some((s, ms)) if !ms.is_empty() && rng.chance(1, 5) => {
                let k = rng.below(ms.len() as u64) as usize;
                let mut p = s.clone();
                for m in &ms[..k] {
                    p = p.apply(*m);
                }
                let mut out = ms[..k].to_vec();
                if rng.chance(1, 3) {
                    let n_ext = 1 + rng.below(3) as usize;
                    let ext = workload::random_walk(rng, &p, n_ext, workload::Bias::Tactical);
                    out.extend(ext);
                }
                Some((s.clone(), out))
            }
            _ => None,
        };
        if related.is_none() && rng.chance(2, 3) {
            sc.line("ucinewgame");
        }
        let terminal_game = o.terminal && rng.chance(1, 3);
        let mut shuffle_game = false;
        let (start, moves) = if let Some((s, ms)) = related {
            let mut p = s.clone();
            for m in &ms {
                p = p.apply(*m);
            }
            if p.is_terminal() && !o.terminal {
                (s, vec![])
            } else {
                (s, ms)
            }
        } else if terminal_game {
            if rng.chance(1, 2) {
                (Pos::from_fen(*rng.pick(TERMINAL_FENS)).unwrap(), vec![])
            } else {
                match gen_terminal_game(rng) {
                    Some(g) => (g.start, g.moves),
                    None => (Pos::from_fen(*rng.pick(TERMINAL_FENS)).unwrap(), vec![]),
                }
            }
        } else if rng.chance(1, 20) {
            // closed shuffle: the search runs through all its iterations and ENDS before the
            // deadline (the search thread is gone while the I/O thread still waits)
            shuffle_game = true;
            (crate::endgames::closed_shuffle_root(rng), vec![])
        } else if rng.chance(1, 8) && !workload::forced_move_pool().is_empty() {
            // exactly one legal move: the shortcut every engine is tempted to take
            if rng.chance(1, 3) && !workload::forced_special_pool().is_empty() {
                // ... and that one move is an en-passant capture (of a checking pawn), or every
                // move is a promotion; reached by the double step or given as FEN
                let x = rng.pick(workload::forced_special_pool());
                match &x.pre {
                    Some((pre, m)) if rng.chance(1, 2) => (pre.clone(), vec![*m]),
                    _ => (x.pos.clone(), vec![]),
                }
            } else {
                (rng.pick(workload::forced_move_pool()).clone(), vec![])
            }
        } else {
            let g = workload::gen_game(rng, 24);
            (g.start, g.moves)
        };
        let first_game_without_position = n_go == 0 && sc.steps.iter().all(|s| !matches!(s, Step::Line { text, .. } if text.starts_with("position"))) && rng.chance(1, 12);
        let (start, moves) = if first_game_without_position { (Pos::start(), vec![]) } else { (start, moves) };
        let mut p = start.clone();
        for m in &moves {
            p = p.apply(*m);
        }
        if !first_game_without_position {
            let pl = sa::position_line(&start, &moves, rng);
            sc.line(&pl);
            previous = Some((start.clone(), moves.clone()));
        }
        let gos = 1 + rng.below(if o.timed { 3 } else { 4 });
        let mut white = p.white_to_move;
        for _ in 0..gos {
            // longer plans where the box is slow enough that a slice holds few nodes
            let max_plan = if sc.c_node_ns >= 100_000 || shuffle_game { 400 } else if sc.c_node_ns >= 25_000 { 150 } else { 50 };
            let text = sa::gen_go_max(rng, o.timed, white, max_plan);
            if pipelined {
                sc.line_nowait(&text);
            } else {
                sc.line(&text);
            }
            n_go += 1;
            white = !white;
            if rng.chance(1, 3) {
                sc.line("isready");
            }
        }
    }
    if o.faulty && o.timed && rng.chance(1, 8) {
        // the GUI goes away while the engine thinks: one more timed go, end of input right
        // behind it. The go is still owed its bestmove; the process ends afterwards.
        let g = workload::gen_game(rng, 12);
        let p = g.final_pos();
        sc.line(&sa::position_line(&g.start, &g.moves, rng));
        let plan = rng.range(3, 40);
        let (my, other) = if p.white_to_move { ("w", "b") } else { ("b", "w") };
        sc.line_nowait(&format!("go {}time {} {}time 5000 movestogo 1", my, 100 + (plan * 10 + 7) / 8, other));
        sc.steps.push(Step::Close);
        n_go += 1;
    } else {
        sc.line("isready");
        if rng.chance(2, 3) {
            sc.line("quit");
        } else {
            sc.steps.push(Step::Close);
        }
    }
    if o.faulty {
        // swarm: a random subset of fault kinds per run
        let enabled = [rng.chance(1, 2), rng.chance(1, 2), rng.chance(1, 2), rng.chance(1, 2), rng.chance(1, 2)];
        sa::gen_timing_faults(rng, &mut sc, n_go, &enabled);
    }
    sc
}

fn injected_ns(cmd: &sa::Cmd, tid_filter: impl Fn(usize) -> bool) -> u64 {
    // FaultFired texts carry "+<us>us"
    let mut total = 0u64;
    for (tid, f) in &cmd.fired {
        if !tid_filter(*tid) {
            continue;
        }
        if let Some(i) = f.find('+') {
            let rest = &f[i + 1..];
            if let Some(j) = rest.find("us") {
                if let Ok(us) = rest[..j].parse::<u64>() {
                    total += us * 1000 + 999;
                }
            }
        }
    }
    total
}

pub const FIRST_MOVE_NODE_BUDGET: u64 = 200;

/// Evaluate one recorded session against the session model.
pub fn judge_session(sc: &Scenario, res: &SimResult, tr: &Trace, j: Judge, acc: &mut Acc, run: u64) {
    let scen = || {
        let mut j = sc.to_json();
        // replaying the scenario must reproduce not only the verdict but the whole execution
        j["log_hash"] = json!(format!("{:016x}", res.log_hash()));
        j
    };
    let mut v = |prop: &str, sig: String, detail: String, acc: &mut Acc| {
        acc.violate(Violation { prop: prop.to_string(), sig, detail, scenario: scen(), run });
    };
    let mut model: Option<Pos> = Some(Pos::start());
    let n = tr.cmds.len();
    let poll_q = MS + sc.jitter_max_ns + 20 * 1000;
    for (i, c) in tr.cmds.iter().enumerate() {
        let last = i + 1 == n;
        let t0 = c.toks.first().map(|s| s.as_str()).unwrap_or("");
        match t0 {
            "position" => {
                model = sa::model_position(&c.toks).map(|(s, ms)| {
                    let mut p = s;
                    for m in ms {
                        p = p.apply(m);
                    }
                    p
                });
            }
            "isready" => {
                let n_ok = c.outs.iter().filter(|o| o.tid == 0 && o.line == "readyok").count();
                let waited_in_vain = last && matches!(&tr.end, SimEnd::GuiTimeout(w) if w == "readyok");
                let cut_short = last && !waited_in_vain && !matches!(tr.end, SimEnd::Exit(_) | SimEnd::IoReturned | SimEnd::ScriptDone | SimEnd::EofSpin);
                if j.c08 && n_ok != 1 && !cut_short {
                    v("C08", format!("C08/isready/readyok-count-{}", n_ok.min(2)), format!("isready answered by {} readyok lines", n_ok), acc);
                }
            }
            "go" => {
                let p = match &model {
                    Some(p) => p.clone(),
                    None => continue,
                };
                acc.evals += 1;
                let legal = p.legal_moves();
                let terminal = legal.is_empty();
                let bms: Vec<&sa::Out> = c.outs.iter().filter(|o| o.line.starts_with("bestmove")).collect();
                let plan_ms = sa::engine_plan_ms(&c.toks, p.white_to_move);
                let ended_here = last;
                // ---- liveness / crash classification when the session ended inside this go
                if bms.is_empty() {
                    let (cls, what) = match &tr.end {
                        SimEnd::Hang(w) if ended_here => ("hang", w.clone()),
                        SimEnd::GuiTimeout(w) if ended_here => ("no-reply-in-60s", w.clone()),
                        SimEnd::Overrun if ended_here => ("search-overrun", "a search thread exceeded the node cap long after its deadline".into()),
                        SimEnd::IoPanicked(m) if ended_here => ("crash", m.clone()),
                        _ => ("no-bestmove", format!("{:?}", tr.end)),
                    };
                    let root = if terminal { "terminal-root" } else { "nonterminal-root" };
                    if j.c08 {
                        v("C08", format!("C08/{}/{}", cls, root), format!("go in {} ({}): {}", p.fen(), c.raw.trim(), what), acc);
                    }
                    if j.c03 && !terminal {
                        v("C03", format!("C03/bestmove-count-0/{}", cls), format!("go in {} ({}) got no bestmove: {}", p.fen(), c.raw.trim(), what), acc);
                    }
                    model = None;
                    continue;
                }
                if bms.len() > 1 {
                    if j.c03 {
                        v("C03", "C03/bestmove-count-2+".into(), format!("go in {} answered {} times: {:?}", p.fen(), bms.len(), bms.iter().map(|o| o.line.clone()).collect::<Vec<_>>()), acc);
                    }
                    model = None;
                    continue;
                }
                let bm = bms[0];
                if let Some(tid) = c.search_tid {
                    if tr.thread_ends.iter().any(|(t, k, at)| *t == tid && matches!(k, EndKind::Return) && *at + 3 * MS < bm.t) && c.sends.len() >= 3 && plan_ms.unwrap_or(0) >= 5 {
                        // the search ran through all its iterations (or settled a mate) and was
                        // gone while the I/O thread still waited for the deadline
                        acc.count("probe_search_thread_returned_well_before_the_bestmove");
                    }
                }
                if j.c18 {
                    let lines: Vec<String> = c.outs.iter().filter(|o| o.line.starts_with("info")).map(|o| o.line.clone()).collect();
                    if !lines.is_empty() {
                        acc.nontrivial.insert(fnv(p.canon_hash(), c.raw.as_bytes()));
                    }
                    if let Some((cls, detail)) = crate::sb::check_info_lines(&lines, &p) {
                        v("C18", format!("C18/stream/{}", cls), format!("between `{}` and its bestmove in {}: {}", c.raw.trim(), p.fen(), detail), acc);
                    }
                    if legal.len() == 1 {
                        acc.count("c18_go_on_forced_move_positions");
                    }
                }
                // ---- C08 timing (virtual time)
                if let Some(plan) = plan_ms {
                    let plan_ns = (plan.min(10_000_000) as u64) * MS;
                    let t_go = c.t;
                    let t_first = c.sends.first().map(|s| s.0).unwrap_or(t_go);
                    let io_injected = injected_ns(c, |tid| tid == 0);
                    let search_injected = injected_ns(c, |tid| tid != 0);
                    let due = (t_go + plan_ns).max(t_first);
                    let late = bm.t.saturating_sub(due);
                    let slack = 2 * poll_q + io_injected + 200 * 1000;
                    if (j.c08 || (j.c09 && !terminal)) && late > slack {
                        let prop = if j.c08 { "C08" } else { "C09" };
                        v(prop, format!("{}/late-bestmove", prop), format!("bestmove {}us after it was due (plan {}ms, first move at +{}us, allowed slack {}us) for {} in {}", late / 1000, plan, (t_first - t_go) / 1000, slack / 1000, c.raw.trim(), p.fen()), acc);
                    }
                    let first_late = t_first.saturating_sub(t_go + plan_ns);
                    let first_budget = sc.c_node_ns * FIRST_MOVE_NODE_BUDGET + search_injected + io_injected + 2 * MS;
                    if (j.c08 || j.c09) && !terminal && first_late > first_budget {
                        let prop = if j.c08 { "C08" } else { "C09" };
                        v(prop, format!("{}/first-move-too-late", prop), format!("first move {}us after the deadline (budget {}us), so the answer came that long after the planned {}ms, for {} in {}", first_late / 1000, first_budget / 1000, plan, c.raw.trim(), p.fen()), acc);
                    }
                    if j.c09 && !terminal {
                        let elapsed = bm.t - t_go;
                        if elapsed + 10_000 < plan_ns {
                            v("C09", "C09/answered-before-plan".into(), format!("bestmove after {}us but the plan was {}ms: {} in {}", elapsed / 1000, plan, c.raw.trim(), p.fen()), acc);
                        }
                        acc.nontrivial.insert(fnv(sa::interleaving_signature(res), c.raw.as_bytes()));
                    }
                    if j.c08 {
                        acc.add("c08_sum_late_us", late / 1000);
                        acc.max("c08_bestmove_late_us", late / 1000);
                        if io_injected + search_injected == 0 {
                            acc.max("c08_first_move_after_deadline_us_no_injected_delay", first_late / 1000);
                            acc.max("c08_first_move_after_deadline_in_nodes_no_injected_delay", first_late / sc.c_node_ns.max(1));
                        }
                        if t_first > t_go + plan_ns {
                            acc.count("probe_first_send_after_deadline");
                            acc.nontrivial.insert(fnv(p.canon_hash(), b"first-after-deadline"));
                        }
                        if io_injected + search_injected > 0 {
                            acc.nontrivial.insert(fnv(p.canon_hash(), c.raw.as_bytes()));
                        }
                    }
                }
                if terminal {
                    if j.c08 {
                        acc.nontrivial.insert(fnv(p.canon_hash(), b"terminal"));
                        acc.count("c08_go_on_terminal_positions");
                        if !sa::is_null_bestmove(&bm.line) {
                            v("C08", "C08/terminal-root/not-a-null-move".into(), format!("no legal move in {} but the answer was {:?}", p.fen(), bm.line), acc);
                        }
                    }
                    // the position does not change
                    continue;
                }
                // ---- C03: shape and legality
                if !sa::is_bestmove_shape(&bm.line) {
                    if j.c03 {
                        v("C03", "C03/bestmove-shape".into(), format!("malformed answer {:?} in {}", bm.line, p.fen()), acc);
                    }
                    model = None;
                    continue;
                }
                let mv = Mv::parse(bm.line.split(' ').nth(1).unwrap()).unwrap();
                if !legal.contains(&mv) {
                    if j.c03 {
                        let plain = Mv { from: mv.from, to: mv.to, promo: 0 };
                        let cls = if mv.promo != 0 && legal.contains(&plain) {
                            "promotion-letter-on-non-promotion"
                        } else if mv.promo == 0 && legal.iter().any(|m| m.from == mv.from && m.to == mv.to) {
                            "missing-promotion-letter"
                        } else {
                            "illegal-move"
                        };
                        v("C03", format!("C03/illegal-bestmove/{}", cls), format!("answer {:?} is not legal in {}", bm.line, p.fen()), acc);
                    }
                    model = None;
                    continue;
                }
                if j.c03 {
                    let sig = sa::interleaving_signature(res);
                    // non-trivial: >= 2 sends raced the deadline, or the fallback path was taken
                    let raced = c.sends.len() >= 2 || c.sends.first().map(|s| s.0 > c.t + plan_ms.unwrap_or(0) as u64 * MS).unwrap_or(false);
                    if raced {
                        acc.nontrivial.insert(fnv(p.canon_hash(), &sig.to_le_bytes()));
                    }
                    acc.distinct.insert(fnv(p.canon_hash(), c.raw.as_bytes()));
                    if c.sends.iter().any(|s| !s.2) {
                        acc.count("probe_send_after_receiver_dropped");
                    }
                    if c.sends.len() >= 2 {
                        acc.count("probe_two_or_more_sends_in_one_go");
                    }
                }
                // the engine keeps the played board: the model advances by its answer
                model = Some(p.apply(mv));
                // the go probe shows the board the engine now holds
                if j.c03 {
                    if let Some(pi) = c.probes.last() {
                        if res.probes[*pi].tag == "go" {
                            if let Some(d) = crate::bridge::diff_board(&res.probes[*pi].board, model.as_ref().unwrap()) {
                                v("C03", "C03/board-after-go".into(), format!("after {} the engine's board is not the position after that move: {}", bm.line, d), acc);
                                model = None;
                            }
                        }
                    }
                }
            }
            _ => {}
        }
    }
    // crash of the I/O thread anywhere outside a go is everybody's problem: attribute it to C08
    if let SimEnd::IoPanicked(m) = &tr.end {
        let in_go = tr.cmds.last().map(|c| c.toks.first().map(|s| s == "go").unwrap_or(false)).unwrap_or(false);
        if !in_go && j.c08 {
            v("C08", "C08/crash/outside-go".into(), format!("the I/O thread panicked: {}", m), acc);
        }
    }
    if matches!(tr.end, SimEnd::Watchdog | SimEnd::EventCap) {
        acc.count("harness_watchdog_or_eventcap");
    }
    for (tid, k, _) in &tr.thread_ends {
        if let EndKind::Panic(m) = k {
            if *tid != 0 {
                if m.contains("SendError") {
                    acc.count("probe_search_thread_died_on_send_to_dropped_receiver");
                } else {
                    acc.count("search_thread_panicked_other");
                }
            }
        }
    }
}

/// Marathon: one `position`, then hundreds of `go` commands without another one (the engine
/// plays both sides from its own answers), mostly zero or tiny slices. What only goes wrong at
/// the 300th or 1100th `go` of a session - counters that nothing resets, threads and channel
/// contents that pile up - is out of reach of sessions of a dozen commands.
pub fn gen_marathon(rng: &mut Rng, run: u64) -> Scenario {
    let mut sc = Scenario::new();
    sa::gen_knobs(rng, &mut sc, false);
    sc.c_node_ns = *rng.pick(&[200u64, 1_000, 5_000]);
    sc.gui_latency_ns = *rng.pick(&[1_000u64, 50_000]);
    sc.line("uci");
    if rng.chance(1, 2) {
        sc.line("ucinewgame");
    }
    // closed shuffles never end; other starts end in mate, stalemate or a long draw dance
    let start = if run < 2 || rng.chance(3, 4) { crate::endgames::closed_shuffle_root(rng) } else { workload::gen_position(rng) };
    sc.line(&sa::position_line(&start, &[], rng));
    // the first two marathons of a batch are the long ones: a counter of 8 bits that nothing
    // resets overflows at the 256th visit of a position, i.e. after 1024 go commands when the
    // engine's own answers cycle through four positions, after 2048 when through eight
    let n = match run {
        0 => 1_100 + rng.below(200),
        1 => 2_100 + rng.below(200),
        _ => 150 + rng.below(700),
    };
    let zero_only = run == 0;
    let mut white = start.white_to_move;
    for i in 0..n {
        let (my, other) = if white { ("w", "b") } else { ("b", "w") };
        let text = match if zero_only { rng.below(5) } else { rng.below(8) } {
            0 => "go".to_string(),
            1 => format!("go {}time 0 {}time 0", my, other),
            2 => format!("go {}time -5 {}time 100", my, other),
            3 | 4 => format!("go {}time {} {}time 50", my, rng.range(0, 100), other),
            5 => format!("go {}time {} {}time 1000 movestogo 1", my, rng.range(101, 104), other),
            6 => format!("go {}time {} {}time 1000", my, rng.range(101, 160), other),
            _ => format!("go wtime 0 btime 0 winc 0 binc 0 movestogo {}", rng.range(1, 40)),
        };
        sc.line(&text);
        white = !white;
        if i % 97 == 96 || rng.chance(1, 60) {
            sc.line("isready");
        }
    }
    sc.line("isready");
    sc.line("quit");
    sc
}

pub fn run_marathon(seed: u64, run: u64, tag: &str, j: Judge) -> Acc {
    let mut rng = Rng::new(crate::rng::mix(seed, tag, run));
    let mut acc = Acc::new();
    let sc = gen_marathon(&mut rng, run);
    let res = sa::run(&sc);
    let tr = sa::extract(&res);
    acc.virtual_ns += res.virtual_ns;
    acc.count(&format!("sim_end:{}", end_name(&res.end)));
    acc.count("marathon_sessions");
    let gos = tr.cmds.iter().filter(|c| c.toks.first().map(|t| t == "go").unwrap_or(false)).count() as u64;
    acc.max("longest_run_of_consecutive_go_commands", gos);
    if gos >= 1_100 {
        acc.count("probe_session_with_1100_or_more_consecutive_go");
    }
    judge_session(&sc, &res, &tr, j, &mut acc, run);
    acc
}

pub fn run_one(seed: u64, run: u64, tag: &str, j: Judge, faulty: bool) -> Acc {
    let mut rng = Rng::new(crate::rng::mix(seed, tag, run));
    let mut acc = Acc::new();
    let o = SessionOpts { timed: rng.chance(3, 4), faulty, terminal: j.c08, max_games: 3 };
    let sc = gen_session(&mut rng, &o);
    let res = sa::run(&sc);
    let tr = sa::extract(&res);
    acc.virtual_ns += res.virtual_ns;
    acc.interleavings.insert(sa::interleaving_signature(&res));
    for e in &res.events {
        if let crate::verif_seam::kernel::EvKind::FaultFired(f) = &e.kind {
            let kind = f.split(' ').next().unwrap_or("?");
            acc.count(&format!("fault_fired:{}", kind));
        }
    }
    acc.add("faults_scheduled", sc.faults.len() as u64);
    acc.count(&format!("sim_end:{}", end_name(&res.end)));
    if run < 2 {
        acc.sample(sa::describe(&sc));
    }
    judge_session(&sc, &res, &tr, j, &mut acc, run);
    acc
}

pub fn end_name(e: &SimEnd) -> &'static str {
    match e {
        SimEnd::Exit(_) => "exit",
        SimEnd::IoReturned => "io-returned",
        SimEnd::IoPanicked(_) => "io-panicked",
        SimEnd::Hang(_) => "hang",
        SimEnd::GuiTimeout(_) => "gui-timeout",
        SimEnd::ScriptDone => "script-done",
        SimEnd::EofSpin => "eof-spin",
        SimEnd::Overrun => "overrun",
        SimEnd::EventCap => "event-cap",
        SimEnd::Watchdog => "watchdog",
    }
}

/// re-execute a scenario and judge it (replay and minimisation)
pub fn replay(scv: &serde_json::Value, j: Judge) -> (Acc, u64) {
    let mut acc = Acc::new();
    let sc = match Scenario::from_json(scv) {
        Some(s) => s,
        None => return (acc, 0),
    };
    let res = sa::run(&sc);
    let tr = sa::extract(&res);
    judge_session(&sc, &res, &tr, j, &mut acc, 0);
    (acc, res.log_hash())
}

/// delta-debugging on the scenario value while the same signature persists
pub fn minimise(v: &Violation, j: Judge) -> Violation {
    let mut best = match Scenario::from_json(&v.scenario) {
        Some(s) => s,
        None => return v.clone(),
    };
    let still = |s: &Scenario| -> Option<Violation> {
        let (acc, _) = replay(&s.to_json(), j);
        acc.violations.into_iter().find(|x| x.sig == v.sig)
    };
    if still(&best).is_none() {
        return v.clone();
    }
    let mut out = v.clone();
    // 1. drop faults one by one, then shrink magnitudes
    let mut i = 0;
    while i < best.faults.len() {
        let mut t = best.clone();
        t.faults.remove(i);
        if let Some(x) = still(&t) {
            best = t;
            out = x;
        } else {
            i += 1;
        }
    }
    // 2. simplify knobs
    for f in [
        (|s: &mut Scenario| s.jitter_max_ns = 0) as fn(&mut Scenario),
        |s: &mut Scenario| s.ties = 0,
        |s: &mut Scenario| s.gui_latency_ns = 50_000,
        |s: &mut Scenario| s.c_node_ns = 5_000,
    ] {
        let mut t = best.clone();
        f(&mut t);
        if let Some(x) = still(&t) {
            best = t;
            out = x;
        }
    }
    // 3. drop steps (never the handshake), last to first, in chunks of halving size (a
    //    marathon session has thousands of steps); a wall-clock budget bounds the effort - what
    //    is kept is always a scenario that was re-executed and still shows the signature
    let t_start = std::time::Instant::now();
    let budget = std::time::Duration::from_secs(90);
    let mut chunk = (best.steps.len() / 2).max(1);
    'shrink: loop {
        let mut i = best.steps.len();
        while i > 1 {
            if t_start.elapsed() > budget {
                break 'shrink;
            }
            let lo = i.saturating_sub(chunk).max(1);
            let mut t = best.clone();
            t.steps.drain(lo..i);
            if let Some(x) = still(&t) {
                best = t;
                out = x;
            }
            i = lo;
        }
        if chunk == 1 {
            break;
        }
        chunk /= 2;
    }
    // 4. shorten move lists of position commands from the front is not legal-preserving;
    //    from the back it is: drop trailing moves while the signature persists
    for si in 0..best.steps.len() {
        loop {
            let text = match &best.steps[si] {
                Step::Line { text, .. } if text.starts_with("position") && text.contains(" moves ") => text.clone(),
                _ => break,
            };
            let cut = match text.rfind(' ') {
                Some(c) => c,
                None => break,
            };
            let mut shorter = text[..cut].to_string();
            if shorter.ends_with(" moves") {
                shorter = shorter[..shorter.len() - 6].to_string();
            }
            let mut t = best.clone();
            if let Step::Line { text: tx, .. } = &mut t.steps[si] {
                *tx = shorter;
            }
            if let Some(x) = still(&t) {
                best = t;
                out = x;
            } else {
                break;
            }
        }
    }
    out.run = v.run;
    let (_, h) = replay(&best.to_json(), j);
    out.scenario = best.to_json();
    out.scenario["log_hash"] = json!(format!("{:016x}", h));
    out
}

pub fn fault_catalogue() -> serde_json::Value {
    json!({
        "stall_search": "a search thread is descheduled for 0.1..120 ms at its j-th node",
        "oversleep_io": "one 1 ms poll sleep of the I/O thread lasts 0.5..150 ms longer",
        "spawn_delay": "the search thread starts 0.2..100 ms after thread::spawn returns",
        "pause_all": "the whole process freezes for 1..200 ms at an offset inside a go",
        "stall_before_send": "a search thread is descheduled for 0.05..150 ms between the root's acceptance test and the channel send of its i-th improvement",
        "slow_box": "c_node 0.2..200 us per node (x1000 range)",
        "poll_jitter": "every poll sleep oversleeps by a uniform 0..3 ms",
        "pipelined": "the GUI does not wait for bestmove before sending on"
    })
}

#[allow(dead_code)]
fn _unused(_: &Fault, _: &r::Pos) {}

/// determinism self-test: every scenario is executed twice; the event-log hashes must agree.
/// Returns (digest over all hashes, mismatches).
pub fn determinism(seed: u64, n: u64) -> (u64, u64) {
    let hs = crate::report::par_runs(n, crate::report::workers(), |r| {
        let mut rng = Rng::new(crate::rng::mix(seed, "determinism", r));
        let o = SessionOpts { timed: true, faulty: true, terminal: true, max_games: 2 };
        let sc = gen_session(&mut rng, &o);
        let ra = sa::run(&sc);
        let rb = sa::run(&sc);
        let (a, b) = (ra.log_hash(), rb.log_hash());
        if a != b && std::env::var("VERIF_DEBUG_DETERMINISM").is_ok() {
            let la: Vec<String> = ra.events.iter().map(|e| format!("{}|{}|{:?}", e.t, e.tid as i64, e.kind)).collect();
            let lb: Vec<String> = rb.events.iter().map(|e| format!("{}|{}|{:?}", e.t, e.tid as i64, e.kind)).collect();
            let k = la.iter().zip(lb.iter()).take_while(|(x, y)| x == y).count();
            eprintln!("determinism mismatch in scenario {}: first differing event #{}\n  A: {:?}\n  B: {:?}\n  ends: {:?} / {:?}\n  scenario: {}", r, k, la.get(k.saturating_sub(2)..(k + 3).min(la.len())), lb.get(k.saturating_sub(2)..(k + 3).min(lb.len())), ra.end, rb.end, sc.to_json());
        }
        (a, a != b)
    });
    let mut digest = 0u64;
    let mut bad = 0;
    for (h, m) in hs {
        digest = fnv(digest, &h.to_le_bytes());
        if m {
            bad += 1;
        }
    }
    (digest, bad)
}

// ------------------------------------------------------------------------------------------
// C10 (i) through the real command loop: several `position` commands in one session

pub fn run_c10_session(seed: u64, run: u64) -> Acc {
    run_probe_session(seed, run, "C10")
}

/// C10 (ii) through the real command loop: an earlier game with a timed search (whose thread,
/// its channel contents and whatever it hands back may still be around), then the position
/// command of a repetition root - sent right behind the earlier `go`, or after its answer -
/// and a timed `go`: every completed depth must report a score >= 0. Observed on stdout only.
pub fn run_c10_draw_session(seed: u64, run: u64) -> Acc {
    let mut rng = Rng::new(crate::rng::mix(seed, "C10-draw-session", run));
    let mut acc = Acc::new();
    let z = crate::zobrist::ZobristHasher::create_zobrist_hasher();
    let want = *rng.pick(&[2u32, 2, 3]);
    let forced = rng.chance(1, 4);
    let game = match if forced { crate::sb_checks::forced_repetition_game(&mut rng, want) } else { crate::sb_checks::gen_repetition_root(&mut rng, want, &z) } {
        Some(g) => g,
        None => return acc,
    };
    let mut sc = Scenario::new();
    sa::gen_knobs(&mut rng, &mut sc, false);
    sc.c_node_ns = *rng.pick(&[200u64, 1_000, 2_500]);
    sc.gui_latency_ns = *rng.pick(&[1_000u64, 50_000, MS]);
    sc.line("uci");
    let earlier = rng.below(3);
    let pipelined = rng.chance(1, 2);
    for _ in 0..earlier {
        let og = workload::gen_game(&mut rng, 16);
        let p = og.final_pos();
        if p.is_terminal() {
            continue;
        }
        sc.line(&sa::position_line(&og.start, &og.moves, &mut rng));
        let text = sa::gen_go_max(&mut rng, true, p.white_to_move, 40);
        if pipelined {
            sc.line_nowait(&text);
        } else {
            sc.line(&text);
        }
    }
    sc.line(&sa::position_line(&game.start, &game.moves, &mut rng));
    if pipelined && earlier > 0 {
        // let the earlier answers come out before the probed go is sent
        sc.line("isready");
    }
    let root = game.final_pos();
    let (my, other) = if root.white_to_move { ("w", "b") } else { ("b", "w") };
    // plan of 20..60 ms with movestogo 1: clock = 100 + plan / 0.8
    let plan = rng.range(20, 60);
    sc.line(&format!("go {}time {} {}time 60000 movestogo 1", my, 100 + (plan * 10 + 7) / 8, other));
    sc.line("isready");
    sc.line("quit");
    if earlier > 0 && rng.chance(2, 3) {
        // delays in the earlier searches' threads: late sends, late hand-backs
        let enabled = [true, false, true, false, true];
        sa::gen_timing_faults(&mut rng, &mut sc, earlier as usize, &enabled);
    }
    let mut scj = sc.to_json();
    scj["check"] = json!("C10-draw");
    scj["want"] = json!(want);
    judge_c10_draw_session(&sc, &scj, want, &mut acc, run);
    acc
}

pub fn judge_c10_draw_session(sc: &Scenario, scj: &serde_json::Value, want: u32, acc: &mut Acc, run: u64) {
    let res = sa::run(sc);
    acc.virtual_ns += res.virtual_ns;
    acc.evals += 1;
    acc.count("c10_draw_sessions");
    // the lines between the last go and its bestmove, in stdout order
    let outs: Vec<&str> = res.out.iter().map(|(_, _, l)| l.as_str()).collect();
    let last_bm = match outs.iter().rposition(|l| l.starts_with("bestmove")) {
        Some(i) => i,
        None => return,
    };
    let from = outs[..last_bm].iter().rposition(|l| l.starts_with("bestmove") || *l == "readyok" || *l == "uciok").map(|i| i + 1).unwrap_or(0);
    let lines: Vec<&str> = outs[from..last_bm].iter().copied().filter(|l| l.starts_with("info")).collect();
    let depth_of = |l: &str| crate::verif_seam::info_depth(l);
    let maxd = lines.iter().filter_map(|l| depth_of(l)).max().unwrap_or(0);
    if maxd >= 2 {
        acc.count("c10_draw_sessions_with_a_completed_depth");
        acc.nontrivial.insert(fnv(run, sc.to_json().to_string().as_bytes()));
    }
    for d in 1..maxd {
        // depth d is completed: a line of a larger depth follows
        if let Some(l) = lines.iter().filter(|l| depth_of(l) == Some(d)).last() {
            if let Some(inf) = crate::sb::parse_info_strict(l) {
                let below = match inf.score {
                    Ok(cp) => cp < 0,
                    Err(n) => n < 0,
                };
                if below {
                    acc.violate(Violation {
                        prop: "C10".into(),
                        sig: format!("C10/session/draw-not-taken/count-{}", if want >= 3 { "3+" } else { "2" }),
                        detail: format!("the mover can repeat a position that already occurred {} times but depth {} of the session's last search reports {:?}: {}", want, d, inf.score, l),
                        scenario: scj.clone(),
                        run,
                    });
                    return;
                }
            }
        }
    }
}

/// sessions of several `position` commands (and zero-slice `go`s) through the real command
/// loop; the H4 probes show the board and the repetition record the I/O thread holds.
/// prop = "C10": record vs multiset model; "C04": probed board vs referee position;
/// "C05": probed key vs from-scratch key (after position and after go).
pub fn run_probe_session(seed: u64, run: u64, prop: &str) -> Acc {
    let mut rng = Rng::new(crate::rng::mix(seed, &format!("{}-session", prop), run));
    let mut acc = Acc::new();
    let z = crate::zobrist::ZobristHasher::create_zobrist_hasher();
    let mut sc = Scenario::new();
    sc.line("uci");
    // one session in 250: a very long game (1030-1400 plies, no capture-heavy play so that it
    // does not end early) - move lists beyond any fixed-size token or move buffer
    let base = if run % 250 == 3 {
        let mut g = workload::Game { start: Pos::start(), moves: vec![], source: "marathon-game" };
        for _ in 0..6 {
            let want = 1030 + rng.below(370) as usize;
            let ms = workload::random_walk(&mut rng, &Pos::start(), want, workload::Bias::Quiet);
            if ms.len() >= 1030 {
                g.moves = ms;
                break;
            }
        }
        if g.moves.len() >= 1030 {
            acc.count("session_with_a_game_of_more_than_1024_plies");
        }
        g
    } else if rng.chance(1, 8) {
        workload::Game { start: workload::template_en_passant(&mut rng), moves: vec![], source: "tmpl-ep" }
    } else {
        workload::gen_game(&mut rng, 30)
    };
    let mut games: Vec<workload::Game> = vec![];
    let n = 1 + rng.below(4);
    for _ in 0..n {
        let g = match rng.below(9) {
            0 => workload::Game { start: base.start.clone(), moves: vec![], source: "" },
            1 => {
                let k = rng.below(base.moves.len() as u64 + 1) as usize;
                workload::Game { start: base.start.clone(), moves: base.moves[..k].to_vec(), source: "" }
            }
            2 => base.clone(),
            3 => {
                let start = Pos::start();
                let reps = 1 + rng.below(3) as usize;
                let moves = workload::shuffle_game(&mut rng, &start, reps, 2);
                workload::Game { start, moves, source: "" }
            }
            4 => workload::Game { start: workload::gen_position(&mut rng), moves: vec![], source: "" },
            7 => {
                // the previous FEN again with ONE field changed: the en-passant target removed or
                // added, a castling right dropped, or the side to move flipped (whatever the
                // engine remembers about a FEN must cover all of its fields)
                let prev = games.last().map(|g: &workload::Game| g.start.clone()).unwrap_or_else(|| base.start.clone());
                let mut s2 = prev.clone();
                match rng.below(3) {
                    0 | 1 => {
                        if s2.ep.is_some() {
                            s2.ep = None;
                        } else {
                            for f in 0..8 {
                                let e = if s2.white_to_move { r::sq(f, 5) } else { r::sq(f, 2) };
                                let mut q = s2.clone();
                                q.ep = Some(e);
                                if q.is_legal_position() {
                                    s2 = q;
                                    break;
                                }
                            }
                        }
                    }
                    _ => {
                        if let Some(i) = (0..4).find(|i| s2.castle[*i]) {
                            s2.castle[i] = false;
                        } else {
                            let mut q = s2.clone();
                            q.white_to_move = !q.white_to_move;
                            q.ep = None;
                            if q.is_legal_position() {
                                s2 = q;
                            }
                        }
                    }
                }
                if s2 != prev {
                    acc.count("session_same_fen_with_one_field_changed");
                }
                workload::Game { start: s2, moves: vec![], source: "" }
            }
            5 | 6 => {
                // the SAME move list from a DIFFERENT start position: remove a bystander piece
                // (or flip a castling right) so that every move of the list stays legal
                let mut found = None;
                for _ in 0..12 {
                    let mut s2 = base.start.clone();
                    if rng.chance(1, 4) && s2.castle.iter().any(|c| *c) {
                        let i = rng.below(4) as usize;
                        s2.castle[i] = false;
                    } else {
                        let sq = rng.below(64) as usize;
                        if s2.sq[sq] == 0 || r::kind(s2.sq[sq]) == r::KING {
                            continue;
                        }
                        s2.sq[sq] = 0;
                        // rights need their rook
                        if !s2.is_legal_position() {
                            for i in 0..4 {
                                let mut t = s2.clone();
                                t.castle[i] = false;
                                if t.is_legal_position() {
                                    s2 = t;
                                    break;
                                }
                            }
                        }
                    }
                    if s2 == base.start || !s2.is_legal_position() {
                        continue;
                    }
                    let mut p = s2.clone();
                    let mut ok = true;
                    for m in &base.moves {
                        if !p.legal_moves().contains(m) {
                            ok = false;
                            break;
                        }
                        p = p.apply(*m);
                    }
                    if ok {
                        found = Some(workload::Game { start: s2, moves: base.moves.clone(), source: "" });
                        break;
                    }
                }
                match found {
                    Some(g) => {
                        acc.count("session_same_moves_from_a_different_start");
                        g
                    }
                    None => base.clone(),
                }
            }
            _ => workload::gen_game(&mut rng, 30),
        };
        if rng.chance(1, 3) {
            sc.line("ucinewgame");
        }
        sc.line(&sa::position_line(&g.start, &g.moves, &mut rng));
        if rng.chance(1, 4) && !g.final_pos().is_terminal() {
            sc.line("go");
            // the engine's answer changes board and record only at the next position command
        }
        games.push(g);
    }
    sc.line("quit");
    judge_probe_session(&sc, &games, prop, &mut acc, run);
    acc
}

/// re-execute a probe-session scenario (replay): the games are read back from the script
pub fn replay_probe_session(scv: &serde_json::Value, prop: &str) -> Acc {
    let mut acc = Acc::new();
    if scv["check"].as_str() == Some("C10-draw") {
        if let Some(sc) = Scenario::from_json(scv) {
            judge_c10_draw_session(&sc, scv, scv["want"].as_u64().unwrap_or(2) as u32, &mut acc, 0);
        }
        return acc;
    }
    let sc = match Scenario::from_json(scv) {
        Some(s) => s,
        None => return acc,
    };
    let mut games = vec![];
    for st in &sc.steps {
        if let Step::Line { text, .. } = st {
            let toks: Vec<String> = sa::tokens(text).iter().map(|x| x.to_string()).collect();
            if toks.first().map(|t| t == "position").unwrap_or(false) {
                if let Some((start, moves)) = sa::model_position(&toks) {
                    games.push(workload::Game { start, moves, source: "replay" });
                }
            }
        }
    }
    judge_probe_session(&sc, &games, prop, &mut acc, 0);
    acc
}

fn judge_probe_session(sc: &Scenario, games: &[workload::Game], prop: &str, acc: &mut Acc, run: u64) {
    let z = crate::zobrist::ZobristHasher::create_zobrist_hasher();
    let res = sa::run(sc);
    acc.virtual_ns += res.virtual_ns;
    // the i-th "position" probe belongs to the i-th game
    let probes: Vec<&crate::verif_seam::kernel::ProbeSnap> = res.probes.iter().filter(|p| p.tag == "position").collect();
    for (g, snap) in games.iter().zip(probes.iter()) {
        acc.evals += 1;
        if prop == "C04" || prop == "C05" {
            let fin = g.final_pos();
            acc.nontrivial.insert(fnv(fin.canon_hash(), g.moves_text().join(" ").as_bytes()));
            let d = crate::bridge::diff_board(&snap.board, &fin);
            if prop == "C04" {
                if let Some(d) = d {
                    acc.violate(Violation { prop: "C04".into(), sig: "C04/session/position-probe".into(), detail: format!("after {:?} the engine holds a wrong position: {}", sa::position_line(&g.start, &g.moves, &mut Rng::new(0)), d), scenario: sc.to_json(), run });
                    break;
                }
            } else if d.is_none() && snap.board.zobrist_key != crate::bridge::model_key(&fin, &z) {
                acc.violate(Violation { prop: "C05".into(), sig: "C05/session/key-mismatch/position".into(), detail: format!("after {:?} the key is {:016x}, from scratch {:016x}", sa::position_line(&g.start, &g.moves, &mut Rng::new(0)), snap.board.zobrist_key, crate::bridge::model_key(&fin, &z)), scenario: sc.to_json(), run });
                break;
            }
            continue;
        }
        let mut model: std::collections::HashMap<u64, u32> = std::collections::HashMap::new();
        let mut maxc = 0;
        for p in g.positions() {
            let e = model.entry(crate::bridge::model_key(&p, &z)).or_insert(0);
            *e += 1;
            maxc = maxc.max(*e);
        }
        if games.len() >= 2 {
            acc.nontrivial.insert(fnv(g.start.canon_hash(), format!("{:?}|{}", g.moves_text(), games.len()).as_bytes()));
        }
        let got: std::collections::HashMap<u64, u32> = snap.table.iter().filter(|(_, c)| *c != 0).map(|(k, c)| (*k, *c as u32)).collect();
        if got != model {
            let stray = got.keys().filter(|k| !model.contains_key(k)).count();
            let cls = if stray > 0 { "stray-entries-from-earlier-commands" } else { "wrong-count" };
            acc.violate(Violation {
                prop: "C10".into(),
                sig: format!("C10/record/session/{}", cls),
                detail: format!("after {:?} the repetition record has {} entries ({} that belong to no position of this game); the game has {} distinct positions", sa::position_line(&g.start, &g.moves, &mut Rng::new(0)), got.len(), stray, model.len()),
                scenario: sc.to_json(),
                run,
            });
            break;
        }
    }
    if prop == "C05" {
        for snap in res.probes.iter().filter(|p| p.tag == "go") {
            acc.evals += 1;
            let held = crate::bridge::to_pos(&snap.board);
            if snap.board.zobrist_key != crate::bridge::model_key(&held, &z) {
                acc.violate(Violation { prop: "C05".into(), sig: "C05/session/key-mismatch/go".into(), detail: format!("the board kept after go ({}) has key {:016x}, from scratch {:016x}", held.canon(), snap.board.zobrist_key, crate::bridge::model_key(&held, &z)), scenario: sc.to_json(), run });
                break;
            }
        }
    }
    if probes.len() < games.len() && !matches!(res.end, SimEnd::Exit(_)) {
        acc.count("session_cut_short");
    }
}

/// C18 stream view: fault-free timed sessions, several position+go pairs in a row, GUI latency
/// of at least 1 ms (so that on a correct engine no line of an earlier search can fall into a
/// later go's window)
pub fn run_c18_session(seed: u64, run: u64) -> Acc {
    let mut rng = Rng::new(crate::rng::mix(seed, "C18-session", run));
    let mut acc = Acc::new();
    let o = SessionOpts { timed: true, faulty: false, terminal: false, max_games: 4 };
    let mut sc = gen_session(&mut rng, &o);
    sc.gui_latency_ns = *rng.pick(&[1 * MS, 2 * MS, 20 * MS]);
    sc.jitter_max_ns = 0;
    let res = sa::run(&sc);
    let tr = sa::extract(&res);
    acc.virtual_ns += res.virtual_ns;
    acc.interleavings.insert(sa::interleaving_signature(&res));
    let j = Judge { c18: true, ..Default::default() };
    judge_session(&sc, &res, &tr, j, &mut acc, run);
    acc
}
