//! The registered checks: one function per property id.
use crate::report::{self, Acc, CheckMeta};
use crate::sc;
use crate::sa_checks;
use crate::sa_meta;
use crate::zobrist::ZobristHasher;
use serde_json::{json, Map, Value};

pub fn default_seed(id: &str) -> u64 {
    // a fixed constant per check, so the unchanged tree is always judged on the same sample
    20261004 + crate::rng::fnv(0, id.as_bytes()) % 1000
}

fn real_stub_sc() -> Value {
    json!({
        "real": ["generate_moves", "is_check", "BoardState::from_fen", "ZobristHasher", "uci::play_out_position", "uci::make_move", "DrawTable"],
        "stub": [],
        "oracle": ["referee (independent rules, validated by published perft counts)", "position-key model through ZobristHasher's public getters"],
        "not_run": ["threads, clock, stdin/stdout (this family has none)"]
    })
}

fn minimise_all(acc: &mut Acc, f: impl Fn(&report::Violation) -> report::Violation) {
    let vs = std::mem::take(&mut acc.violations);
    for v in vs {
        acc.violations.push(f(&v));
    }
}

pub fn run_sc_check(id: &str, tier: &str, seed: u64) -> i32 {
    let t0 = std::time::Instant::now();
    let judge = sc::Judge::only(id);
    let (n, max_plies): (u64, usize) = match (id, tier) {
        ("C13", "quick") => (6_000, 50),
        ("C13", _) => (80_000, 60),
        ("C04", "quick") => (12_000, 60),
        ("C04", _) => (150_000, 200),
        (_, "quick") => (16_000, 60),
        (_, _) => (250_000, 80),
    };
    let mut acc = report::par_acc(n, |r| {
        let z = ZobristHasher::create_zobrist_hasher();
        sc::run(seed, r, id, judge, &z, max_plies)
    });
    let z = ZobristHasher::create_zobrist_hasher();
    minimise_all(&mut acc, |v| sc::minimise(v, &z));
    let (rule, level) = match id {
        "C01" => ("referee-legal games from start/curated/synthesised/template positions (castling next to attackers, en-passant pins, promotions), every prefix; generator output compared as a move multiset with the referee; re-entered through from_fen on a quarter of the prefixes. Non-trivial: distinct canonical positions with a castling right, an ep target, the mover in check, or a pawn one step from promotion.", "exploration"),
        "C02" => ("same walks; every successor (and successors of special successors, two plies deep, chained from the engine's own BoardState) compared field by field with referee apply(p, m) and its descriptor with m. Non-trivial: distinct positions at which a castling/ep/promotion/double-step/corner move was generated or had just been played, plus distinct successor-of-special positions.", "exploration"),
        "C04" => ("the text applier (make_move through play_out_position) runs next to the generator chain and the referee on every prefix; round trip of every generated move through text. Non-trivial: distinct (position, special move) pairs replayed as text.", "exploration"),
        "C05" => ("after every step of all three producers (FEN loader, text applier, generator chain) the incremental key is compared with the key recomputed from scratch from the referee position; route independence over recurring positions; toggle sensitivity. Non-trivial: distinct (position, move) pairs on branches with explicit XORs (double step with ep pending, ep capture, capture-promotion, castling with ep pending, capture on a corner).", "exploration"),
        "C13" => ("capture-only generation followed recursively from the engine's own capture-only successors (depth <= 6, <= 400 nodes per root; also below every ordinary successor for a third of the roots) with the referee position carried alongside. Non-trivial: chain nodes at depth >= 2 whose root had an ep target or whose chain captured onto a last rank.", "exploration"),
        _ => ("", "exploration"),
    };
    let meta = CheckMeta {
        id,
        tier,
        seed,
        level,
        rule,
        assumptions: vec![
            "the referee (validated against published perft counts and rule vignettes at every start) is right".into(),
            "the 12x12x12 Zobrist constant table itself is trusted; only its public getters are used".into(),
        ],
        real_stub: real_stub_sc(),
    };
    let mut extra = Map::new();
    extra.insert("runs".into(), json!(n));
    extra.insert("fault_kinds_injected".into(), json!({"none": "state-machine walk: this clause has no schedule, clock or I/O; histories are the quantifier"}));
    report::finish_check(&meta, &acc, t0.elapsed().as_secs_f64(), extra)
}

fn real_stub_sa() -> Value {
    json!({
        "real": ["uci::play_game_uci dispatch loop", "find_and_play_best_move polling loop", "parse_go_command", "play_out_position/make_move", "get_best_move/alpha_beta_search/quiesce", "generate_moves", "evaluation", "time_control", "std::sync::mpsc (wrapped: scheduling point before send/try_recv/drop)", "OS threads (parked; the kernel releases one at a time)"],
        "stub": ["Instant/clock (virtual ns)", "thread::sleep (virtual)", "stdin (scripted byte stream with arrival times and EOF)", "stdout (recorded)", "process::exit (recorded, unwinds)", "simple_logging (no file is opened)", "GUI (scripted client)"],
        "not_run": ["main.rs (clap front end, mimalloc)"]
    })
}

pub fn run_sa_check(id: &str, tier: &str, seed: u64) -> i32 {
    let t0 = std::time::Instant::now();
    let mut j = sa_checks::Judge::default();
    match id {
        "C03" => j.c03 = true,
        "C08" => j.c08 = true,
        "C09" => j.c09 = true,
        _ => {}
    }
    let n: u64 = match tier {
        "quick" => 6_000,
        _ => 120_000,
    };
    // fault-free configuration (strict oracle) and fault-injecting configuration, separately
    let mut acc = report::par_acc(n / 3, |r| sa_checks::run_one(seed, r, &format!("{}-clean", id), j, false));
    let clean_evals = acc.evals;
    let faulty = report::par_acc(n - n / 3, |r| sa_checks::run_one(seed, r, &format!("{}-faulty", id), j, true));
    acc.merge(faulty);
    if id == "C09" {
        let cfgacc = crate::c09::sweep(seed, tier);
        acc.merge(cfgacc);
    }
    minimise_all(&mut acc, |v| if v.scenario["family"] == "SA" { sa_checks::minimise(v, j) } else { v.clone() });
    let rule = match id {
        "C03" => "GUI scripts of 1-3 games (position by FEN or startpos+moves from the workload library, 1-4 go each incl. consecutive go without position; go with no/zero/negative clocks and timed plans of 1-50 virtual ms) run under the DES kernel, one third fault-free and two thirds with a random subset of {stall_search, oversleep_io, spawn_delay, pause_all, poll jitter, slow box, pipelined GUI}. An evaluation is one go on a non-terminal position. Non-trivial: distinct (position, interleaving signature) pairs in which >= 2 sends raced the deadline or the first send came after the deadline (fallback path).",
        "C08" => "same session generator with terminal positions (mates and stalemates given by FEN and reached by moves) mixed in; bounded-liveness oracle on virtual time relative to the engine's own plan and to the delays the simulator itself injected; exact hang detection. An evaluation is one go. Non-trivial: distinct go commands on terminal positions, with the first send after the deadline, or overlapped by an injected delay.",
        "C09" => "(i) measured go->bestmove delay of every simulated go against the engine's own plan (lower bound: plan; upper bound: as C08) under fault-free and timing-fault configurations; (ii) plan vs the policy model (exact rational arithmetic) over a sweep of clock/inc/movestogo/side configurations around the margin and sign boundaries and over every go line the sessions issued. Non-trivial: distinct (interleaving signature, go line) pairs for (i), distinct configuration classes for (ii).",
        _ => "",
    };
    let meta = CheckMeta {
        id,
        tier,
        seed,
        level: "exploration",
        rule,
        assumptions: vec![
            "virtual time is a model: c_node per searched node, 1 us per seam call, sleeps by their duration plus injected oversleep; bounds are stated relative to delays the simulator injected".into(),
            "the seam mirrors std for read_line, mpsc disconnection, panic-kills-thread and exit".into(),
            "the referee is right (perft self-check at start)".into(),
        ],
        real_stub: real_stub_sa(),
    };
    let mut extra = Map::new();
    extra.insert("runs".into(), json!(n));
    extra.insert("runs_fault_free".into(), json!(n / 3));
    extra.insert("evaluations_fault_free".into(), json!(clean_evals));
    extra.insert("fault_catalogue".into(), sa_checks::fault_catalogue());
    report::finish_check(&meta, &acc, t0.elapsed().as_secs_f64(), extra)
}

pub fn run_meta_check(id: &str, tier: &str, seed: u64) -> i32 {
    let t0 = std::time::Instant::now();
    let n: u64 = match (id, tier) {
        ("C17", "quick") => 1_200,
        ("C17", _) => 25_000,
        (_, "quick") => 4_000,
        (_, _) => 80_000,
    };
    let mut acc = match id {
        "C17" => report::par_acc(n, |r| sa_meta::run_c17(seed, r)),
        _ => report::par_acc(n, |r| sa_meta::run_c16(seed, r)),
    };
    if id == "C17" {
        minimise_all(&mut acc, |v| sa_meta::minimise_c17(v));
    }
    let (rule, level) = match id {
        "C17" => ("per run one timing-free base script (handshake, 1-2 games, zero-slice go commands, isready probes, quit); (ignore) a noisy twin with unknown/empty/blank/4 kB/non-ASCII lines inserted anywhere after the handshake, ASCII-whitespace variants (blanks, tabs, VT, FF, CRLF) of valid commands and unknown tokens inside go must give the same transcript and the same probed board/record after each command; (lifecycle) stdin is closed at EVERY command boundary of the script (enumerated, exhaustive per script) and at two sampled mid-line offsets, and the process must end. An evaluation is one simulated session. Non-trivial: distinct noisy scripts with >= 1 noise item plus distinct (script prefix, EOF boundary) pairs.", "fault_enumeration"),
        _ => ("metamorphic pairs: request R = (position X, go G) in a fresh engine vs after 1-6 items of earlier traffic (other games with timed and zero-slice go, ucinewgame, setoption, noise, shorter/longer versions of X's own game, R itself), optionally R repeated; zero-slice G: identical bestmove; timed G: (depth, nodes, score, first PV move) sequences agree on their common prefix and the bestmove is among the run's own improvements. Timing faults (stall_search, oversleep_io, spawn_delay) only inside the prefix. Non-trivial: distinct (prefix shape, R) pairs whose prefix changed the board or the repetition record.", "exploration"),
    };
    let meta = CheckMeta {
        id,
        tier,
        seed,
        level,
        rule,
        assumptions: vec![
            "noise is valid UTF-8 and does not begin with a command word the engine knows; whitespace variants use ASCII whitespace".into(),
            "a truncated known command (EOF in mid-line) is malformed input: dying on it counts as ending the process".into(),
            "the seam's read_line has std's contract (bytes up to and including newline; the rest at EOF; then Ok(0) for ever)".into(),
        ],
        real_stub: real_stub_sa(),
    };
    let mut extra = Map::new();
    extra.insert("runs".into(), json!(n));
    if id == "C17" {
        extra.insert("exhaustive_note".into(), json!("EOF at command boundaries is enumerated exhaustively for each generated script; scripts and noise placement are sampled"));
    }
    report::finish_check(&meta, &acc, t0.elapsed().as_secs_f64(), extra)
}

pub fn run_check(id: &str, tier: &str, seed: u64) -> i32 {
    match id {
        "C16" | "C17" => run_meta_check(id, tier, seed),
        "C01" | "C02" | "C04" | "C05" | "C13" => run_sc_check(id, tier, seed),
        "C03" | "C08" | "C09" => run_sa_check(id, tier, seed),
        _ => {
            eprintln!("unknown or unclaimed property {}", id);
            2
        }
    }
}

/// `wsim replay <file>`: re-execute the scenario in a fresh process; exit 1 (with the
/// VIOLATION line) if the recorded signature is reproduced, 0 if the property now holds on it.
pub fn replay_file(path: &str) -> i32 {
    let txt = match std::fs::read_to_string(path) {
        Ok(t) => t,
        Err(e) => {
            eprintln!("cannot read {}: {}", path, e);
            return 2;
        }
    };
    let v: Value = match serde_json::from_str(&txt) {
        Ok(v) => v,
        Err(e) => {
            eprintln!("bad replay file: {}", e);
            return 2;
        }
    };
    let prop = v["property"].as_str().unwrap_or("").to_string();
    let sig = v["signature"].as_str().unwrap_or("").to_string();
    let sc = &v["scenario"];
    let family = sc["family"].as_str().unwrap_or("");
    let acc = match family {
        "SC" => {
            let z = ZobristHasher::create_zobrist_hasher();
            sc::replay(sc, &prop, &z)
        }
        _ => {
            eprintln!("unknown scenario family {:?}", family);
            return 2;
        }
    };
    for x in &acc.violations {
        std::println!("replayed: {} :: {}", x.sig, x.detail);
    }
    if acc.violations.iter().any(|x| x.sig == sig) {
        std::println!("VIOLATION property={} replay={}", prop, path);
        std::println!("REPRODUCED signature={}", sig);
        1
    } else {
        std::println!("NOT-REPRODUCED signature={} (the scenario now passes)", sig);
        0
    }
}
