//! The registered checks: one function per property id.
use crate::report::{self, Acc, CheckMeta};
use crate::sc;
use crate::sa_checks;
use crate::sa_meta;
use crate::sb_checks;
use crate::zobrist::ZobristHasher;
use serde_json::{json, Map, Value};

pub fn default_seed(id: &str) -> u64 {
    // a fixed constant per check, so the unchanged tree is always judged on the same sample
    20261004 + crate::rng::fnv(0, id.as_bytes()) % 1000
}

fn real_stub_sc() -> Value {
    json!({
        "real": ["generate_moves", "is_check", "BoardState::from_fen", "ZobristHasher", "uci::play_out_position", "uci::make_move", "DrawTable"],
        "stub": [],
        "oracle": ["referee (independent rules, validated by published perft counts)", "position-key model through ZobristHasher's public getters"],
        "not_run": ["threads, clock, stdin/stdout (this family has none)"]
    })
}

fn minimise_all(acc: &mut Acc, f: impl Fn(&report::Violation) -> report::Violation) {
    let vs = std::mem::take(&mut acc.violations);
    for v in vs {
        acc.violations.push(f(&v));
    }
}

pub fn run_sc_check(id: &str, tier: &str, seed: u64) -> i32 {
    let t0 = std::time::Instant::now();
    let judge = sc::Judge::only(id);
    let (n, max_plies): (u64, usize) = match (id, tier) {
        ("C13", "quick") => (6_000, 50),
        ("C13", _) => (120_000, 60),
        ("C04", "quick") => (40_000, 60),
        ("C04", _) => (600_000, 200),
        (_, "quick") => (40_000, 60),
        (_, _) => (600_000, 80),
    };
    let mut acc = report::par_acc(n, |r| {
        let z = ZobristHasher::create_zobrist_hasher();
        sc::run(seed, r, id, judge, &z, max_plies)
    });
    if id == "C04" || id == "C05" {
        // the same clause observed through the real command loop (H4 probes after position / go)
        let ns: u64 = if tier == "quick" { 8_000 } else { 200_000 };
        acc.merge(report::par_acc(ns, |r| sa_checks::run_probe_session(seed, r, id)));
    }
    let z = ZobristHasher::create_zobrist_hasher();
    minimise_all(&mut acc, |v| if v.scenario["family"] == "SC" { sc::minimise(v, &z) } else { v.clone() });
    let (rule, level) = match id {
        "C01" => ("referee-legal games from start/curated/synthesised/template positions (castling next to attackers, en-passant pins, promotions), every prefix; generator output compared as a move multiset with the referee; re-entered through from_fen on a quarter of the prefixes. Non-trivial: distinct canonical positions with a castling right, an ep target, the mover in check, or a pawn one step from promotion.", "exploration"),
        "C02" => ("same walks; every successor (and successors of special successors, two plies deep, chained from the engine's own BoardState) compared field by field with referee apply(p, m) and its descriptor with m. Non-trivial: distinct positions at which a castling/ep/promotion/double-step/corner move was generated or had just been played, plus distinct successor-of-special positions.", "exploration"),
        "C04" => ("the text applier (make_move through play_out_position) runs next to the generator chain and the referee on every prefix; round trip of every generated move through text. Non-trivial: distinct (position, special move) pairs replayed as text.", "exploration"),
        "C05" => ("after every step of all three producers (FEN loader, text applier, generator chain) the incremental key is compared with the key recomputed from scratch from the referee position; route independence over recurring positions; toggle sensitivity. Non-trivial: distinct (position, move) pairs on branches with explicit XORs (double step with ep pending, ep capture, capture-promotion, castling with ep pending, capture on a corner).", "exploration"),
        "C13" => ("capture-only generation followed recursively from the engine's own capture-only successors (depth <= 6, <= 400 nodes per root; also below every ordinary successor for a third of the roots) with the referee position carried alongside. Non-trivial: chain nodes at depth >= 2 whose root had an ep target or whose chain captured onto a last rank.", "exploration"),
        _ => ("", "exploration"),
    };
    let meta = CheckMeta {
        id,
        tier,
        seed,
        level,
        rule,
        assumptions: vec![
            "the referee (validated against published perft counts and rule vignettes at every start) is right".into(),
            "the 12x12x12 Zobrist constant table itself is trusted; only its public getters are used".into(),
        ],
        real_stub: real_stub_sc(),
    };
    let mut extra = Map::new();
    extra.insert("runs".into(), json!(n));
    extra.insert("fault_kinds_injected".into(), json!({"none": "state-machine walk: this clause has no schedule, clock or I/O; histories are the quantifier"}));
    report::finish_check(&meta, &acc, t0.elapsed().as_secs_f64(), extra)
}

fn real_stub_sa() -> Value {
    json!({
        "real": ["uci::play_game_uci dispatch loop", "find_and_play_best_move polling loop", "parse_go_command", "play_out_position/make_move", "get_best_move/alpha_beta_search/quiesce", "generate_moves", "evaluation", "time_control", "std::sync::mpsc (wrapped: scheduling point before send/try_recv/drop)", "OS threads (parked; the kernel releases one at a time)"],
        "stub": ["Instant/clock (virtual ns)", "thread::sleep (virtual)", "stdin (scripted byte stream with arrival times and EOF)", "stdout (recorded)", "process::exit (recorded, unwinds)", "simple_logging (no file is opened)", "GUI (scripted client)"],
        "not_run": ["main.rs (clap front end, mimalloc)"]
    })
}

pub fn run_sa_check(id: &str, tier: &str, seed: u64) -> i32 {
    let t0 = std::time::Instant::now();
    let mut j = sa_checks::Judge::default();
    match id {
        "C03" => j.c03 = true,
        "C08" => j.c08 = true,
        "C09" => j.c09 = true,
        _ => {}
    }
    let n: u64 = match tier {
        "quick" => 12_000,
        _ => 400_000,
    };
    // fault-free configuration (strict oracle) and fault-injecting configuration, separately
    let mut acc = report::par_acc(n / 3, |r| sa_checks::run_one(seed, r, &format!("{}-clean", id), j, false));
    let clean_evals = acc.evals;
    let faulty = report::par_acc(n - n / 3, |r| sa_checks::run_one(seed, r, &format!("{}-faulty", id), j, true));
    acc.merge(faulty);
    if id == "C03" || id == "C08" {
        // marathon sessions: one position, hundreds of consecutive go commands
        let nm = if tier == "quick" { 6 } else { 120 };
        acc.merge(report::par_acc(nm, |r| sa_checks::run_marathon(seed, r, &format!("{}-marathon", id), j)));
    }
    if id == "C09" {
        let cfgacc = crate::c09::sweep(seed, tier);
        acc.merge(cfgacc);
    }
    minimise_all(&mut acc, |v| if v.scenario["family"] == "SA" { sa_checks::minimise(v, j) } else { v.clone() });
    let rule = match id {
        "C03" => "GUI scripts of 1-3 games (position by FEN or startpos+moves from the workload library, 1-4 go each incl. consecutive go without position; go with no/zero/negative clocks and timed plans of 1-50 virtual ms) run under the DES kernel, one third fault-free and two thirds with a random subset of {stall_search, oversleep_io, spawn_delay, pause_all, poll jitter, slow box, pipelined GUI}. An evaluation is one go on a non-terminal position. Non-trivial: distinct (position, interleaving signature) pairs in which >= 2 sends raced the deadline or the first send came after the deadline (fallback path).",
        "C08" => "same session generator with terminal positions (mates and stalemates given by FEN and reached by moves) mixed in; bounded-liveness oracle on virtual time relative to the engine's own plan and to the delays the simulator itself injected; exact hang detection. An evaluation is one go. Non-trivial: distinct go commands on terminal positions, with the first send after the deadline, or overlapped by an injected delay.",
        "C09" => "(i) measured go->bestmove delay of every simulated go against the engine's own plan (lower bound: plan; upper bound: as C08) under fault-free and timing-fault configurations; (ii) plan vs the policy model (exact rational arithmetic) over a sweep of clock/inc/movestogo/side configurations around the margin and sign boundaries and over every go line the sessions issued. Non-trivial: distinct (interleaving signature, go line) pairs for (i), distinct configuration classes for (ii).",
        _ => "",
    };
    let meta = CheckMeta {
        id,
        tier,
        seed,
        level: "exploration",
        rule,
        assumptions: vec![
            "virtual time is a model: c_node per searched node, 1 us per seam call, sleeps by their duration plus injected oversleep; bounds are stated relative to delays the simulator injected".into(),
            "the seam mirrors std for read_line, mpsc disconnection, panic-kills-thread and exit".into(),
            "the referee is right (perft self-check at start)".into(),
        ],
        real_stub: real_stub_sa(),
    };
    let mut extra = Map::new();
    extra.insert("runs".into(), json!(n));
    extra.insert("runs_fault_free".into(), json!(n / 3));
    extra.insert("evaluations_fault_free".into(), json!(clean_evals));
    extra.insert("fault_catalogue".into(), sa_checks::fault_catalogue());
    report::finish_check(&meta, &acc, t0.elapsed().as_secs_f64(), extra)
}

pub fn run_meta_check(id: &str, tier: &str, seed: u64) -> i32 {
    let t0 = std::time::Instant::now();
    let n: u64 = match (id, tier) {
        ("C17", "quick") => 2_000,
        ("C17", _) => 60_000,
        (_, "quick") => 8_000,
        (_, _) => 250_000,
    };
    let mut acc = match id {
        "C17" => report::par_acc(n, |r| sa_meta::run_c17(seed, r)),
        _ => report::par_acc(n, |r| sa_meta::run_c16(seed, r)),
    };
    let mut flood_notes: Vec<String> = vec![];
    if id == "C17" {
        minimise_all(&mut acc, |v| sa_meta::minimise_c17(v));
        // flood stage (after minimisation: its scenario is a count, not a step list)
        for kind in ["blank", "unknown"] {
            for n in if tier == "quick" { vec![30_000usize] } else { vec![30_000usize, 120_000] } {
                let (status, v) = sa_meta::flood_stage(n, kind, 120);
                acc.evals += 1;
                if status == "ok" {
                    acc.add(&format!("fault_fired:{}_line_flood_lines", kind), n as u64);
                }
                flood_notes.push(format!("{} {} lines: {}", n, kind, status));
                if let Some(v) = v {
                    acc.violate(v);
                }
            }
        }
    } else {
        minimise_all(&mut acc, |v| sa_meta::minimise_c16(v));
    }
    let (rule, level) = match id {
        "C17" => ("per run one timing-free base script (handshake, 1-2 games, zero-slice go commands, isready probes, quit); (ignore) a noisy twin with unknown/empty/blank/4 kB/non-ASCII lines inserted anywhere after the handshake, ASCII-whitespace variants (blanks, tabs, VT, FF, CRLF) of valid commands and unknown tokens inside go must give the same transcript and the same probed board/record after each command; (lifecycle) stdin is closed at EVERY command boundary of the script (enumerated, exhaustive per script) and at two sampled mid-line offsets, and the process must end. An evaluation is one simulated session. Non-trivial: distinct noisy scripts with >= 1 noise item plus distinct (script prefix, EOF boundary) pairs.", "fault_enumeration"),
        _ => ("metamorphic pairs: request R = (position X, go G) in a fresh engine vs after 1-6 items of earlier traffic (other games with timed and zero-slice go, ucinewgame, setoption, noise, shorter/longer versions of X's own game, R itself), optionally R repeated; zero-slice G: identical bestmove; timed G: (depth, nodes, score, first PV move) sequences agree on their common prefix and the bestmove is among the run's own improvements. Timing faults (stall_search, oversleep_io, spawn_delay) only inside the prefix. Non-trivial: distinct (prefix shape, R) pairs whose prefix changed the board or the repetition record.", "exploration"),
    };
    let meta = CheckMeta {
        id,
        tier,
        seed,
        level,
        rule,
        assumptions: vec![
            "noise is valid UTF-8 and does not begin with a command word the engine knows; whitespace variants use ASCII whitespace".into(),
            "a truncated known command (EOF in mid-line) is malformed input: dying on it counts as ending the process".into(),
            "the seam's read_line has std's contract (bytes up to and including newline; the rest at EOF; then Ok(0) for ever)".into(),
        ],
        real_stub: real_stub_sa(),
    };
    let mut extra = Map::new();
    extra.insert("runs".into(), json!(n));
    if id == "C17" {
        extra.insert("flood_stage".into(), json!({"what": "simulated session uci, isready, N blank lines (and again with N unknown lines `xyzzy 42`), isready, quit run in a child process of the harness (a stack overflow aborts the process it happens in); only a positively identified stack overflow or a lifecycle violation reported by the child is a verdict, anything else (time limit, spawn failure) is inconclusive", "results": flood_notes}));
        extra.insert("exhaustive_note".into(), json!("EOF at command boundaries is enumerated exhaustively for each generated script; scripts and noise placement are sampled"));
    }
    report::finish_check(&meta, &acc, t0.elapsed().as_secs_f64(), extra)
}

fn real_stub_sb() -> Value {
    json!({
        "real": ["engine::get_best_move", "alpha_beta_search", "quiesce", "send_search_info", "Search", "DrawTable", "generate_moves", "is_check", "get_evaluation", "uci::play_out_position (to build board and repetition record)", "std::sync::mpsc (wrapped)"],
        "stub": ["Instant (scripted-expiry clock: queries 0..k-1 in time, k.. out of time)", "stdout (captured)", "the I/O thread (the harness holds the Receiver)"],
        "oracle": ["reference run with an unlimited clock", "referee", "plain negamax over the engine's own generator/evaluation (C12)", "referee AND/OR mate solver (C11)"]
    })
}

const NO_SB: &str = "harness error: engine::get_best_move no longer has the signature the S-B harness calls (board, table, start, allowance, &Sender<BoardState>); this build is the fallback without the S-B scenario family";

pub fn run_sb_check(id: &str, tier: &str, seed: u64) -> i32 {
    let t0 = std::time::Instant::now();
    let quick = tier == "quick";
    if !crate::sb::AVAILABLE && id != "C18" {
        eprintln!("{} - {} cannot be decided on this tree", NO_SB, id);
        return 2;
    }
    if !crate::sb::AVAILABLE {
        eprintln!("{} - only the session part (stream view) of C18 runs; a clean result is reported as exit 2, not as a pass", NO_SB);
    }
    let (mut acc, runs): (Acc, u64) = match id {
        "C07" | "C18" => {
            // most positions at D = 2 (cheap, exhaustive), some at D = 3 (D = 4 in thorough: null move active)
            // a few positions at D = 4 even in the quick tier: null-move pruning (remaining depth >= 3) only exists from iteration 4 on
            let (n2, n3, n4) = if quick { (240, 60, 8) } else { (8_000, 2_000, 200) };
            let (c07, c18) = (id == "C07", id == "C18");
            let (n2, n3, n4) = if crate::sb::AVAILABLE { (n2, n3, n4) } else { (0, 0, 0) };
            let mut a = report::par_acc(n2, |r| sb_checks::run_c07_c18(seed, r, &format!("{}-d2", id), c07, c18, 2, 1500));
            a.merge(report::par_acc(n3, |r| sb_checks::run_c07_c18(seed, r, &format!("{}-d3", id), c07, c18, 3, 1500)));
            if n4 > 0 {
                a.merge(report::par_acc(n4, |r| sb_checks::run_c07_c18(seed, r, &format!("{}-d4", id), c07, c18, 4, 600)));
            }
            // deep mode: D = 5 (killer moves, null-move pruning and re-searches all active), a
            // sampled handful of expiry points per position
            let n5 = if !crate::sb::AVAILABLE { 0 } else if quick { 16 } else { 400 };
            a.merge(report::par_acc(n5, |r| sb_checks::run_c07_c18(seed, r, &format!("{}-d5", id), c07, c18, 5, 1)));
            // closed shuffles: all iterations up to MAX_DEPTH (per-ply tables at large ply numbers)
            let nsh = if !crate::sb::AVAILABLE { 0 } else if quick { 12 } else { 240 };
            a.merge(report::par_acc(nsh, |r| sb_checks::run_c07_c18_shuffle(seed, r, &format!("{}-shuffle", id), c07, c18)));
            if c18 {
                // stream view over whole sessions (what a GUI sees between go and bestmove)
                let ns = if quick { 4_000 } else { 150_000 };
                a.merge(report::par_acc(ns, |r| sa_checks::run_c18_session(seed, r)));
            }
            (a, n2 + n3 + n4)
        }
        "C12" => {
            let n = if quick { 700 } else { 20_000 };
            let a = report::par_acc(n, |r| sb_checks::run_c12(seed, r));
            // coverage guard: the property is only decided where the engine completes the depth
            let d3 = a.counters.get("c12_depth_3_judged").copied().unwrap_or(0);
            if d3 * 2 < n {
                eprintln!("harness error: depth 3 was completed and judged on only {} of {} positions (node cap reached before the iteration finished?) - C12 cannot be decided on this tree", d3, n);
                std::process::exit(2);
            }
            (a, n)
        }
        "C11" => {
            // thorough: searches to depth 5 (null-move pruning active from iteration 4) and
            // verifies claims up to mate in 4
            let n = if quick { 70_000 } else { 500_000 };
            let bound = if quick { 3 } else { 4 };
            (report::par_acc(n, |r| sb_checks::run_c11(seed, r, bound)), n)
        }
        _ => (Acc::new(), 0),
    };
    let _ = &mut acc;
    let (rule, level): (&str, &str) = match id {
        "C07" => ("library positions (half with a game history in the repetition record); reference run with an unlimited clock cut at the first line of depth D+1 (D = 2 for 80% of the positions, 3 for 20%, plus D = 4 in thorough where null-move pruning is active); then the clock is made to expire at the k-th query for EVERY k in [0, K] when K <= 1500, otherwise all k <= 300, k within +-3 of every send / info boundary and 300 sampled k. Per k: no panic; boards handed back are a prefix of the reference's (exactly one legal first-in-ordering board when nothing completed); info lines are a prefix; repetition record unchanged; no sentinel in a score. An evaluation is one (position, k) execution. Non-trivial: distinct (position, k) with the expiry strictly inside the search (0 < k < K).", "fault_enumeration"),
        "C18" => ("the same expiry enumeration as C07 (every k per position when K <= 1500); every info line of every execution is checked against the strict grammar, depth >= 1 and non-decreasing, mate != 0, |cp| <= 100000 and never the +-9999999/8 sentinel, first PV move referee-legal at the root, strictly increasing scores within a depth. Non-trivial: distinct (position, k) with 0 < k < K.", "fault_enumeration"),
        "C12" => ("library positions with <= 45 root moves, with and without history (counts <= 2); the engine's last score of each completed depth 1..3 (unlimited clock) must equal max_m -negamax(child_m, d-1) of a plain full-window negamax written in the harness over the engine's own generator/evaluation/is_check with check extension, capture quiescence, mate and repetition scoring as leaf rules; the selected move must attain it. An evaluation is one (position, depth). Non-trivial: (position, depth) where the best move is not first in static ordering, a repetition draw or a check extension was met, or the value is a mate score.", "exploration"),
        "C11" => ("small positions near mate/stalemate (generated K+heavy pieces vs K+few, endgame seeds, one or two plies before generated mates); classes by the referee mate solver; oracle: mate in one played once iteration 1 is done, no move into a mate in one once iteration 2 is done (when a safe move exists), every `score mate N` verified by the AND/OR solver up to the bound (3 quick, 4 thorough; beyond: counted unverified). Non-trivial: distinct positions in a mate/stalemate class.", "exploration"),
        _ => ("", "exploration"),
    };
    let meta = CheckMeta {
        id,
        tier,
        seed,
        level,
        rule,
        assumptions: vec![
            "with a monotonic clock every behaviour the search can observe is 'the first k queries in time, the rest out of time' for some k".into(),
            "the reference run (unlimited clock) is anchored by C12 (depth <= 3 exact) and C18".into(),
            "the referee is right (perft self-check at start)".into(),
        ],
        real_stub: real_stub_sb(),
    };
    let mut extra = Map::new();
    extra.insert("runs".into(), json!(runs));
    let ex = acc.counters.get("positions_enumerated_exhaustively").copied().unwrap_or(0);
    if id == "C07" || id == "C18" {
        extra.insert("exhaustive".into(), json!(false));
        extra.insert("exhaustive_note".into(), json!(format!("{} of {} positions had every expiry point 0..K executed; positions themselves are sampled", ex, runs)));
    }
    report::finish_check(&meta, &acc, t0.elapsed().as_secs_f64(), extra)
}

pub fn run_c10(tier: &str, seed: u64) -> i32 {
    let t0 = std::time::Instant::now();
    let quick = tier == "quick";
    let judge = sc::Judge::only("C10");
    let n1: u64 = if quick { 20_000 } else { 600_000 };
    let n2: u64 = if quick { 6_000 } else { 150_000 };
    let mut acc = report::par_acc(n1, |r| {
        let z = ZobristHasher::create_zobrist_hasher();
        sc::run(seed, r, "C10", judge, &z, 60)
    });
    let rec_evals = acc.evals;
    if crate::sb::AVAILABLE {
        acc.merge(report::par_acc(n2, |r| sb_checks::run_c10_search(seed, r)));
    } else {
        eprintln!("{} - clause (ii) of C10 is checked through sessions only; a clean result is reported as exit 2, not as a pass", NO_SB);
    }
    // (i) again, through the real command loop: several position commands in one session
    let n3: u64 = if quick { 8_000 } else { 250_000 };
    acc.merge(report::par_acc(n3, |r| sa_checks::run_c10_session(seed, r)));
    // (ii) again, through the real command loop, behind earlier timed searches
    let n4: u64 = if quick { 1_500 } else { 40_000 };
    acc.merge(report::par_acc(n4, |r| sa_checks::run_c10_draw_session(seed, r)));
    let z = ZobristHasher::create_zobrist_hasher();
    minimise_all(&mut acc, |v| if v.scenario["family"] == "SC" { sc::minimise(v, &z) } else { v.clone() });
    let meta = CheckMeta {
        id: "C10",
        tier,
        seed,
        level: "exploration",
        rule: "(i) histories with 0-100 repetitions of a there-and-back shuffle interleaved with ordinary (irreversible) moves are given to the real position handler (after a dirty table from an earlier command was cleared); the record must hold exactly the occurrence count of every position of the game (by the from-scratch key of the referee position) and nothing else. (ii) roots where the mover is at least a rook down by the engine's own evaluation and has a move into a position that already occurred 2, 3 or 4 times: the last score of every completed depth 1..3 must be >= 0. Non-trivial: (i) distinct histories in which some position occurs >= 2 times, (ii) distinct (root, count) cases.",
        assumptions: vec!["the referee is right".into(), "zero-count entries left behind by remove_board_from_draw_table are treated as absent (behaviourally invisible)".into()],
        real_stub: real_stub_sb(),
    };
    let mut extra = Map::new();
    extra.insert("runs".into(), json!(n1 + n2));
    extra.insert("record_evaluations".into(), json!(rec_evals));
    report::finish_check(&meta, &acc, t0.elapsed().as_secs_f64(), extra)
}

pub fn run_c15(tier: &str, seed: u64) -> i32 {
    let t0 = std::time::Instant::now();
    let n: u64 = if tier == "quick" { 40_000 } else { 1_500_000 };
    let mut acc = Acc::new();
    let mut cli = vec![];
    let mut base = 0u64;
    while base < n {
        // chunks bound the memory held between merges
        let m = 4096.min(n - base);
        let parts = report::par_runs(m, report::workers(), |r| crate::c15::run(seed, base + r));
        for (a, c) in parts {
            acc.merge(a);
            if cli.len() < 4000 {
                cli.extend(c);
            }
        }
        base += m;
    }
    let z = ZobristHasher::create_zobrist_hasher();
    crate::c15::systematic(&mut acc, &z);
    minimise_all(&mut acc, |v| crate::c15::minimise(v, &z));
    let bin = std::env::var("VERIF_REAL_BIN").unwrap_or_default();
    let mut cli_done = false;
    if !bin.is_empty() && std::path::Path::new(&bin).exists() {
        // fixed strings first (the documented suspects), then the sampled ones
        let mut fixed: Vec<(String, bool, bool)> = vec![
            ("rnbqkbnr/pppppppp/8/8/8/8/PPPPPPPP/RNBQKBNR w KQkq - 0 256".into(), true, true),
            ("rnbqkbnr/pppppppp/8/8/8/8/PPPPPPPP/RNBQKBNR w KQkq - 120 5949".into(), true, true),
            ("rnbqkbnr/pppppppp/8/8/8/8/PPPPPPPP/RNBQKBNR w KQkq ee 0 1".into(), false, false),
            ("rnbqkbnr/pppppppp/8/8/8/8/PPPPPPPP/RNBQKBNR w KQkq \u{e9} 0 1".to_string(), false, false),
            ("".into(), false, false),
            ("8/8/8/8/8/8/8/8".into(), false, false),
        ];
        fixed.extend(cli.into_iter().take(if tier == "quick" { 300 } else { 3000 }));
        crate::c15::cli_stage(&bin, &fixed, &mut acc);
        cli_done = true;
    }
    let meta = CheckMeta {
        id: "C15",
        tier,
        seed,
        level: "exploration",
        rule: "(i) FENs printed by the referee from library positions with counters from {0,1,49,99,100,255,256,300,1000,5949,9999} must load field for field (and key for key); (ii) 24 corrupted variants per FEN (truncation, single-character substitute/insert/delete from an alphabet incl. digits 0/9, blanks, tab, multi-byte UTF-8; field drop/duplicate/swap; en-passant, counter, castling and placement-structure mutations) plus every truncation/deletion/substitution point of two fixed FENs go (a) to from_fen under catch_unwind, (b) through the real position-fen handler (a panic located in board.rs is a violation, the deliberate 'Got bad fen string' panic is not), (c) a sample of ~300 (3000 thorough) as --fen=<s> -T -d 1 to the real binary built from the working tree (must exit 0, print a message on rejection, run on legal FENs). Strings the referee reads as well-formed FENs of legal positions must be accepted and load faithfully. Non-trivial: distinct strings.",
        assumptions: vec![
            "strings are valid Unicode without NUL (they must be passable as a command-line argument)".into(),
            "what the loader does with well-formed FENs of illegal positions is not judged".into(),
        ],
        real_stub: json!({"real": ["BoardState::from_fen", "Point::from_str", "uci::play_out_position", "the release binary (main.rs, clap) for the CLI clause"], "stub": [], "note": "input corruption on the one stream the engine has; no schedule in this property"}),
    };
    let mut extra = Map::new();
    extra.insert("runs".into(), json!(n));
    extra.insert("real_binary_stage_ran".into(), json!(cli_done));
    let code = report::finish_check(&meta, &acc, t0.elapsed().as_secs_f64(), extra);
    if !cli_done && code == 0 {
        eprintln!("harness error: the real binary was not available (VERIF_REAL_BIN), the CLI clause was not checked");
        return 2;
    }
    code
}

pub fn run_check(id: &str, tier: &str, seed: u64) -> i32 {
    match id {
        "C15" => run_c15(tier, seed),
        "C10" => run_c10(tier, seed),
        "C07" | "C18" | "C12" | "C11" => run_sb_check(id, tier, seed),
        "C16" | "C17" => run_meta_check(id, tier, seed),
        "C01" | "C02" | "C04" | "C05" | "C13" => run_sc_check(id, tier, seed),
        "C03" | "C08" | "C09" => run_sa_check(id, tier, seed),
        _ => {
            eprintln!("unknown or unclaimed property {}", id);
            2
        }
    }
}

/// `wsim replay <file>`: re-execute the scenario in a fresh process; exit 1 (with the
/// VIOLATION line) if the recorded signature is reproduced, 0 if the property now holds on it.
pub fn replay_file(path: &str) -> i32 {
    let txt = match std::fs::read_to_string(path) {
        Ok(t) => t,
        Err(e) => {
            eprintln!("cannot read {}: {}", path, e);
            return 2;
        }
    };
    let v: Value = match serde_json::from_str(&txt) {
        Ok(v) => v,
        Err(e) => {
            eprintln!("bad replay file: {}", e);
            return 2;
        }
    };
    if v["build"].as_str() == Some("checked") && !cfg!(debug_assertions) {
        // found by the pass that runs with overflow checks on: replay with that binary
        let exe = std::env::current_exe().ok();
        let sibling = exe.as_ref().and_then(|e| e.parent()).and_then(|d| d.parent()).map(|t| t.join("checked").join("wsim"));
        return match sibling {
            Some(b) if b.exists() => match std::process::Command::new(&b).arg("replay").arg(path).status() {
                Ok(st) => st.code().unwrap_or(2),
                Err(e) => {
                    eprintln!("cannot run {}: {}", b.display(), e);
                    2
                }
            },
            _ => {
                eprintln!("this replay file needs the checked-arithmetic harness: run bin/setup (cargo build --profile checked in /verif/sim) first");
                2
            }
        };
    }
    let prop = v["property"].as_str().unwrap_or("").to_string();
    let sig = v["signature"].as_str().unwrap_or("").to_string();
    let sc = &v["scenario"];
    let family = sc["family"].as_str().unwrap_or("");
    let acc = match family {
        "SC" => {
            let z = ZobristHasher::create_zobrist_hasher();
            sc::replay(sc, &prop, &z)
        }
        "SB" => match prop.as_str() {
            "C07" | "C18" => sb_checks::replay_expiry(sc, &prop),
            _ => sb_checks::replay_game_check(sc, &prop),
        },
        "SA" => match sc["check"].as_str() {
            Some("C17") => sa_meta::replay_c17(sc),
            Some("C16") => sa_meta::replay_c16(sc),
            _ if prop == "C04" || prop == "C05" || prop == "C10" => sa_checks::replay_probe_session(sc, &prop),
            _ => {
                let mut j = sa_checks::Judge::default();
                match prop.as_str() {
                    "C03" => j.c03 = true,
                    "C08" => j.c08 = true,
                    "C18" => j.c18 = true,
                    _ => j.c09 = true,
                }
                let (acc, hash) = sa_checks::replay(sc, j);
                if let Some(want) = sc["log_hash"].as_str() {
                    let got = format!("{:016x}", hash);
                    std::println!("event-log hash: recorded {} replayed {} ({})", want, got, if want == got { "identical execution" } else { "DIFFERENT execution" });
                }
                acc
            }
        },
        "C15" => {
            let mut a = Acc::new();
            let z = ZobristHasher::create_zobrist_hasher();
            let s = sc["fen"].as_str().unwrap_or("");
            if sc["origin"] == "cli" {
                let bin = std::env::var("VERIF_REAL_BIN").unwrap_or_else(|_| format!("{}/sim/target-real/release/walleye", report::verif_root()));
                crate::c15::cli_stage(&bin, &[(s.to_string(), false, true)], &mut a);
            } else {
                crate::c15::judge_string(s, sc["origin"].as_str().unwrap_or("replay"), &mut a, 0, &z);
            }
            a
        }
        "C09" => {
            let mut a = Acc::new();
            crate::c09::check_line(sc["line"].as_str().unwrap_or("go"), &mut a, 0);
            a
        }
        _ => {
            eprintln!("unknown scenario family {:?}", family);
            return 2;
        }
    };
    for x in &acc.violations {
        std::println!("replayed: {} :: {}", x.sig, x.detail);
    }
    if acc.violations.iter().any(|x| x.sig == sig) {
        std::println!("VIOLATION property={} replay={}", prop, path);
        std::println!("REPRODUCED signature={}", sig);
        1
    } else {
        std::println!("NOT-REPRODUCED signature={} (the scenario now passes)", sig);
        0
    }
}
