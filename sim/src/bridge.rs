//! Conversions between the engine's BoardState and the referee's Pos, field-by-field
//! comparison, and the position-key model (key recomputed from scratch from a *referee*
//! position through ZobristHasher's public getters only).
use crate::board::{BoardState, Piece, PieceColor, PieceKind, Point, Square, BOARD_END, BOARD_START};
use crate::move_generation::CastlingType;
use crate::referee::{self as r, Mv, Pos};
use crate::verif_seam::kernel::SeamDescribe;
use crate::zobrist::ZobristHasher;

pub fn point_to_sq(p: Point) -> Option<u8> {
    if (BOARD_START..BOARD_END).contains(&p.0) && (BOARD_START..BOARD_END).contains(&p.1) {
        let rank = 9 - p.0 as i32; // row 2 = rank 8 (index 7), row 9 = rank 1 (index 0)
        let file = p.1 as i32 - 2;
        Some(r::sq(file, rank))
    } else {
        None
    }
}

pub fn sq_to_point(s: u8) -> Point {
    Point((9 - r::rank_of(s)) as usize, (r::file_of(s) + 2) as usize)
}

pub fn piece_code(p: Piece) -> u8 {
    let k = match p.kind {
        PieceKind::Pawn => r::PAWN,
        PieceKind::Knight => r::KNIGHT,
        PieceKind::Bishop => r::BISHOP,
        PieceKind::Rook => r::ROOK,
        PieceKind::Queen => r::QUEEN,
        PieceKind::King => r::KING,
    };
    if p.color == PieceColor::White {
        k
    } else {
        k | r::BLACK
    }
}

pub fn code_piece(c: u8) -> Piece {
    let kind = match r::kind(c) {
        r::PAWN => PieceKind::Pawn,
        r::KNIGHT => PieceKind::Knight,
        r::BISHOP => PieceKind::Bishop,
        r::ROOK => PieceKind::Rook,
        r::QUEEN => PieceKind::Queen,
        _ => PieceKind::King,
    };
    Piece { kind, color: if r::is_black(c) { PieceColor::Black } else { PieceColor::White } }
}

/// the engine board seen as a referee position (counters are not kept by the engine)
pub fn to_pos(b: &BoardState) -> Pos {
    let mut p = Pos::empty();
    for s in 0..64u8 {
        let pt = sq_to_point(s);
        if let Square::Full(pc) = b.board[pt.0][pt.1] {
            p.sq[s as usize] = piece_code(pc);
        }
    }
    p.white_to_move = b.to_move == PieceColor::White;
    p.castle = [b.white_king_side_castle, b.white_queen_side_castle, b.black_king_side_castle, b.black_queen_side_castle];
    p.ep = b.pawn_double_move.and_then(point_to_sq);
    p
}

/// the move descriptor a successor carries
pub fn descriptor(b: &BoardState) -> Option<Mv> {
    let (f, t) = b.last_move?;
    let promo = match b.pawn_promotion {
        None => 0,
        Some(p) => match p.kind {
            PieceKind::Knight => r::KNIGHT,
            PieceKind::Bishop => r::BISHOP,
            PieceKind::Rook => r::ROOK,
            PieceKind::Queen => r::QUEEN,
            PieceKind::Pawn => 101,
            PieceKind::King => 102,
        },
    };
    Some(Mv { from: point_to_sq(f)?, to: point_to_sq(t)?, promo })
}

/// what the engine would print after "bestmove " for this board (uci.rs:312-324 verbatim in
/// spirit; used only for descriptions, never as an oracle)
pub fn descriptor_text(b: &BoardState) -> String {
    match b.last_move {
        None => "(no last_move)".into(),
        Some((f, t)) => match b.pawn_promotion {
            Some(p) => format!("{}{}{}", f, t, p.kind.alg()),
            None => format!("{}{}", f, t),
        },
    }
}

impl SeamDescribe for BoardState {
    fn seam_describe(&self) -> String {
        descriptor_text(self)
    }
}

/// Field-for-field comparison of an engine board with a referee position: placement, side,
/// four rights, ep target, both king squares (and the sentinel ring). Returns the first
/// difference.
pub fn diff_board(b: &BoardState, p: &Pos) -> Option<String> {
    for row in 0..12 {
        for col in 0..12 {
            let inside = (BOARD_START..BOARD_END).contains(&row) && (BOARD_START..BOARD_END).contains(&col);
            let sqv = b.board[row][col];
            if !inside {
                if sqv != Square::Boundary {
                    return Some(format!("sentinel ring overwritten at ({},{})", row, col));
                }
                continue;
            }
            let s = point_to_sq(Point(row, col)).unwrap();
            let want = p.sq[s as usize];
            let got = match sqv {
                Square::Full(pc) => piece_code(pc),
                Square::Empty => 0,
                Square::Boundary => 255,
            };
            if got != want {
                return Some(format!("square {}: engine has {} referee has {}", r::sq_name(s), got, want));
            }
        }
    }
    if (b.to_move == PieceColor::White) != p.white_to_move {
        return Some("side to move differs".into());
    }
    let rights = [b.white_king_side_castle, b.white_queen_side_castle, b.black_king_side_castle, b.black_queen_side_castle];
    if rights != p.castle {
        return Some(format!("castling rights: engine {:?} referee {:?}", rights, p.castle));
    }
    let ep = match b.pawn_double_move {
        None => None,
        Some(pt) => match point_to_sq(pt) {
            Some(s) => Some(s),
            None => return Some(format!("ep target off board: {:?}", pt)),
        },
    };
    if ep != p.ep {
        return Some(format!(
            "ep target: engine {} referee {}",
            ep.map(r::sq_name).unwrap_or("-".into()),
            p.ep.map(r::sq_name).unwrap_or("-".into())
        ));
    }
    if let Some(wk) = p.king_sq(true) {
        if point_to_sq(b.white_king_location) != Some(wk) {
            return Some(format!("white king cache {:?} but king on {}", b.white_king_location, r::sq_name(wk)));
        }
    }
    if let Some(bk) = p.king_sq(false) {
        if point_to_sq(b.black_king_location) != Some(bk) {
            return Some(format!("black king cache {:?} but king on {}", b.black_king_location, r::sq_name(bk)));
        }
    }
    None
}

/// Position-key model: key(p) from scratch, from a referee position.
pub fn model_key(p: &Pos, z: &ZobristHasher) -> u64 {
    let mut k = 0u64;
    for s in 0..64u8 {
        let c = p.sq[s as usize];
        if c != 0 {
            k ^= z.get_val_for_piece(code_piece(c), sq_to_point(s));
        }
    }
    if !p.white_to_move {
        k ^= z.get_black_to_move_val();
    }
    if p.castle[0] {
        k ^= z.get_val_for_castling(CastlingType::WhiteKingSide);
    }
    if p.castle[1] {
        k ^= z.get_val_for_castling(CastlingType::WhiteQueenSide);
    }
    if p.castle[2] {
        k ^= z.get_val_for_castling(CastlingType::BlackKingSide);
    }
    if p.castle[3] {
        k ^= z.get_val_for_castling(CastlingType::BlackQueenSide);
    }
    if let Some(e) = p.ep {
        k ^= z.get_val_for_en_passant(sq_to_point(e).1);
    }
    k
}
