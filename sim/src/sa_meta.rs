//! S-A metamorphic checks: C17 (unknown input ignored, lifecycle on quit / EOF at any point)
//! and C16 (replies depend only on the current position command, not on earlier traffic).
use crate::referee::Pos;
use crate::report::{Acc, Violation};
use crate::rng::{fnv, Rng};
use crate::sa::{self, Scenario, Step};
use crate::verif_seam::kernel::{EndKind, SimEnd, SimResult};
use crate::workload;
use serde_json::{json, Value};

const NOISE: &[&str] = &[
    "",
    " ",
    "\t",
    "   \t  ",
    "foo",
    "debug on",
    "stop",
    "ponderhit",
    "register later",
    "xyzzy 123 456",
    "Position startpos",
    "GO",
    "isreadyy",
    "readyok",
    "bestmove e2e4",
    "info string hello",
    "d",
    "eval",
    "perft 3",
    "ucinewgame2",
    "\u{00fc}n\u{00ef}c\u{00f6}d\u{00e9} \u{265e}",
    "\u{4e2d}\u{6587}",
    "?",
    "-",
    "0",
    // options this engine does not have, in every shape a GUI sends them (a value, no value,
    // an empty value, a name of several words, nothing at all)
    "setoption name Hash value 16",
    "setoption name Threads value 4",
    "setoption name Clear Hash",
    "setoption name SyzygyPath value",
    "setoption name SyzygyPath value /a b/c",
    "setoption name UCI_Chess960 value false",
    "setoption name Ponder value",
    "setoption name",
    "setoption value",
    "setoption",
    "setoption name value",
    "setoption name DebugLogLevel value",
    "setoption name DebugLogLevel value Warn",
    "setoption value 1 name Hash",
];

/// unknown tokens (safe anywhere inside go)
const GO_NOISE_MID: &[&str] = &["infinite", "ponder", "depth 3", "nodes 1000", "mate 2", "movetime 5", "searchmoves e2e4 d2d4", "foo"];
/// a trailing keyword without a value (safe only as the very last token)
const GO_NOISE_TAIL: &[&str] = &["infinite", "depth", "binc", "winc", "wtime", "btime", "movestogo", "ponder"];

/// random text of 1..=160 characters mixing 1-, 2-, 3- and 4-byte UTF-8 characters, so that
/// character boundaries fall on every byte offset (byte-indexed slicing, fixed-size buffers)
fn unicode_garbage(rng: &mut Rng) -> String {
    const POOL: &[&str] = &["x", "y", "Z", "7", " ", "\u{00e9}", "\u{00fc}", "\u{4e2d}", "\u{265e}", "\u{5c06}", "\u{1f600}", "\u{0661}", "-", "="];
    let n = 1 + rng.below(160) as usize;
    let mut s = String::from("zz");
    // shift the alignment of the multi-byte characters
    for _ in 0..rng.below(4) {
        s.push('q');
    }
    let heavy = rng.chance(1, 2);
    for _ in 0..n {
        let c = if heavy { *rng.pick(&POOL[5..11]) } else { *rng.pick(POOL) };
        s.push_str(c);
    }
    s
}

fn noise_line(rng: &mut Rng) -> String {
    match rng.below(13) {
        12 => {
            // bytes that are not valid UTF-8 somewhere in the line (never after a known command
            // word: what an engine that decodes lossily makes of those is its own business)
            let mark = crate::verif_seam::INVALID_UTF8_MARK;
            match rng.below(4) {
                0 => mark.to_string(),
                1 => format!("foo {} bar", mark),
                2 => format!("{}{}", mark, unicode_garbage(rng)),
                _ => format!("{} {}", rng.pick(&["xyzzy", "debug", "stop", "register"]), mark),
            }
        }
        0 => "x".repeat(4096),
        1 => format!("{} {}", rng.pick(NOISE), "y".repeat(300)),
        2 | 3 | 4 => unicode_garbage(rng),
        _ => rng.pick(NOISE).to_string(),
    }
}

/// the same command with surplus or odd (ASCII) whitespace
fn whitespace_variant(rng: &mut Rng, line: &str) -> (String, String) {
    let blanks = [" ", "  ", "\t", " \t ", "\x0b", "\x0c", "   "];
    let toks: Vec<&str> = line.split(' ').collect();
    let mut s = String::new();
    if rng.chance(1, 2) {
        s.push_str(*rng.pick(&blanks[..]));
    }
    for (i, t) in toks.iter().enumerate() {
        if i > 0 {
            s.push_str(if rng.chance(1, 2) { " " } else { *rng.pick(&blanks[..]) });
        }
        s.push_str(t);
    }
    if rng.chance(1, 2) {
        s.push_str(*rng.pick(&blanks[..]));
    }
    let eol = if rng.chance(1, 3) { "\r\n" } else { "\n" };
    (s, eol.to_string())
}

/// a timing-free base script: every go has a zero slice
pub fn base_script(rng: &mut Rng) -> Vec<String> {
    let mut lines = vec!["uci".to_string()];
    if rng.chance(1, 2) {
        lines.push("isready".into());
    }
    let games = 1 + rng.below(2);
    for _ in 0..games {
        if rng.chance(1, 2) {
            lines.push("ucinewgame".into());
        }
        let g = workload::gen_game(rng, 16);
        lines.push(sa::position_line(&g.start, &g.moves, rng));
        let white = g.final_pos().white_to_move;
        for k in 0..1 + rng.below(3) {
            let w = if k % 2 == 0 { white } else { !white };
            lines.push(sa::gen_go(rng, false, w));
            if rng.chance(1, 2) {
                lines.push("isready".into());
            }
        }
    }
    lines.push("isready".into());
    lines
}

fn script(lines: &[(String, String)], close: bool, quit: bool) -> Scenario {
    let mut sc = Scenario::new();
    for (l, eol) in lines {
        // a partial last line (no newline) cannot be answered before stdin is closed
        let wait = sa::wait_pattern(l).is_some() && !eol.is_empty();
        sc.steps.push(Step::Line { text: l.clone(), eol: eol.clone(), wait });
    }
    if quit {
        sc.steps.push(Step::Line { text: "quit".into(), eol: "\n".into(), wait: false });
    }
    if close {
        sc.steps.push(Step::Close);
    }
    sc
}

fn strip_time(line: &str) -> String {
    if line.starts_with("info ") {
        match line.rfind(" time ") {
            Some(i) => line[..i].to_string(),
            None => line.to_string(),
        }
    } else {
        line.to_string()
    }
}

fn transcript(res: &SimResult) -> Vec<String> {
    res.out.iter().map(|(_, _, l)| strip_time(l)).collect()
}

fn probe_seq(res: &SimResult) -> Vec<(String, u64, Vec<(u64, u8)>)> {
    res.probes.iter().map(|p| (p.tag.clone(), p.board.zobrist_key, p.table.iter().filter(|(_, c)| *c != 0).cloned().collect())).collect()
}

fn io_panic(res: &SimResult) -> Option<String> {
    match &res.end {
        SimEnd::IoPanicked(m) => Some(m.clone()),
        _ => None,
    }
}

pub fn run_c17(seed: u64, run: u64) -> Acc {
    let mut rng = Rng::new(crate::rng::mix(seed, "C17", run));
    let mut acc = Acc::new();
    let base = base_script(&mut rng);
    let clean_lines: Vec<(String, String)> = base.iter().map(|l| (l.clone(), "\n".to_string())).collect();
    let clean_sc = script(&clean_lines, false, true);
    let clean = sa::run(&clean_sc);
    acc.virtual_ns += clean.virtual_ns;
    let mut v = |sig: String, detail: String, sc: &Scenario, acc: &mut Acc| {
        let mut j = sc.to_json();
        j["check"] = json!("C17");
        acc.violate(Violation { prop: "C17".into(), sig, detail, scenario: j, run });
    };
    // ---- the clean script itself: isready -> exactly one readyok; quit -> exit, silently
    acc.evals += 1;
    judge_lifecycle(&clean_sc, &clean, true, &mut acc, run);
    // ---- (ignore) noise lines, whitespace variants and unknown go tokens change nothing
    let mut noisy: Vec<(String, String)> = vec![];
    let mut n_noise = 0;
    for (i, l) in base.iter().enumerate() {
        let (mut text, mut eol) = (l.clone(), "\n".to_string());
        if i > 0 {
            // only after the handshake
            if text.starts_with("go") && rng.chance(1, 2) {
                // unknown tokens inside go: before, between and after the known ones
                let toks: Vec<String> = text.split(' ').map(|s| s.to_string()).collect();
                let mut out = vec![toks[0].clone()];
                let mut k = 1;
                while k < toks.len() {
                    if rng.chance(1, 3) {
                        out.push(rng.pick(GO_NOISE_MID).to_string());
                        n_noise += 1;
                    }
                    // keep keyword/value pairs together
                    out.push(toks[k].clone());
                    if k + 1 < toks.len() {
                        out.push(toks[k + 1].clone());
                    }
                    k += 2;
                }
                if rng.chance(1, 2) {
                    let t = *rng.pick(GO_NOISE_TAIL);
                    // a trailing bare keyword must come last (it has no value to swallow)
                    out.push(t.to_string());
                    n_noise += 1;
                }
                text = out.join(" ");
            }
            if rng.chance(1, 2) {
                let (t, e) = whitespace_variant(&mut rng, &text);
                text = t;
                eol = e;
                n_noise += 1;
            }
            while rng.chance(1, 3) {
                noisy.push((noise_line(&mut rng), if rng.chance(1, 4) { "\r\n".into() } else { "\n".into() }));
                n_noise += 1;
            }
        }
        if l.starts_with("go") && text != *l {
            // unknown tokens inside go are ignored: the parsed clock settings are those of the clean line
            let parse = |t: &str| -> Option<(i128, i128, i128, i128, Option<u32>)> {
                let c = crate::utils::clean_input(t);
                let toks: Vec<&str> = c.split(' ').collect();
                std::panic::catch_unwind(|| {
                    let g = crate::uci::verif_parse_go_command(&toks);
                    (g.wtime, g.btime, g.winc, g.binc, g.movestogo)
                })
                .ok()
            };
            let (a, b) = (parse(l), parse(&text));
            if a != b {
                let mut sc = Scenario::new();
                sc.line("uci");
                sc.line(&text);
                sc.line("quit");
                v("C17/ignore/go-tokens-change-the-clock-settings".into(), format!("{:?} parses as {:?} but {:?} parses as {:?}", l, a, text, b), &sc, &mut acc);
            }
        }
        noisy.push((text, eol));
    }
    while rng.chance(1, 3) {
        noisy.push((noise_line(&mut rng), "\n".into()));
        n_noise += 1;
    }
    let noisy_sc = script(&noisy, false, true);
    let nres = sa::run(&noisy_sc);
    acc.virtual_ns += nres.virtual_ns;
    acc.evals += 1;
    acc.add("fault_fired:noise_items", n_noise);
    acc.add("fault_fired:invalid_utf8_line", noisy.iter().filter(|(l, _)| l.contains(crate::verif_seam::INVALID_UTF8_MARK)).count() as u64);
    acc.add("fault_fired:setoption_for_an_option_the_engine_lacks", noisy.iter().filter(|(l, _)| l.trim_start().starts_with("setoption") && !base.contains(l)).count() as u64);
    if n_noise > 0 {
        acc.nontrivial.insert(fnv(0, format!("{:?}", noisy).as_bytes()));
    }
    if run < 2 {
        acc.sample(json!({"clean": base, "noisy": noisy.iter().map(|(l, e)| format!("{}{}", l, e.escape_default())).collect::<Vec<_>>()}));
    }
    if let Some(m) = io_panic(&nres) {
        if io_panic(&clean).is_none() {
            v("C17/ignore/crash".into(), format!("the engine crashed on the noisy script but not on the clean one: {}", m), &noisy_sc, &mut acc);
        }
    } else {
        let (ta, tb) = (transcript(&clean), transcript(&nres));
        if ta != tb {
            let k = ta.iter().zip(tb.iter()).take_while(|(a, b)| a == b).count();
            v(
                "C17/ignore/transcript-differs".into(),
                format!("output line {} differs: clean {:?} vs noisy {:?}", k, ta.get(k), tb.get(k)),
                &noisy_sc,
                &mut acc,
            );
        } else if probe_seq(&clean) != probe_seq(&nres) {
            v("C17/ignore/state-differs".into(), "board or repetition record after some command differs between the clean and the noisy script".into(), &noisy_sc, &mut acc);
        }
        judge_lifecycle(&noisy_sc, &nres, true, &mut acc, run);
    }
    // ---- (ignore, pipelined) the same noisy script written to the pipe in one go, nothing
    // waited for: several lines (known and unknown ones) are pending while a go is served
    {
        let mut piped = script(&noisy, false, true);
        for s in piped.steps.iter_mut() {
            if let Step::Line { wait, .. } = s {
                *wait = false;
            }
        }
        // slowly starting search threads: the answer of a zero-slice go does not depend on
        // when its thread gets going, but the I/O thread waits longer with lines pending
        let n_go = noisy.iter().filter(|(l, _)| l.trim_start().starts_with("go")).count() as u64;
        for k in 0..n_go + 2 {
            if rng.chance(1, 2) {
                piped.faults.push(crate::verif_seam::kernel::Fault::SpawnDelay { spawn: k as usize, ns: *rng.pick(&[200_000u64, 2_000_000, 10_000_000]) });
            }
        }
        let pres = sa::run(&piped);
        acc.virtual_ns += pres.virtual_ns;
        acc.evals += 1;
        acc.count("fault_fired:noisy_script_pipelined");
        if let Some(m) = io_panic(&pres) {
            if io_panic(&clean).is_none() {
                v("C17/ignore/crash/pipelined".into(), format!("the engine crashed on the pipelined noisy script but not on the clean one: {}", m), &piped, &mut acc);
            }
        } else {
            let (ta, tb) = (transcript(&clean), transcript(&pres));
            if ta != tb {
                let k = ta.iter().zip(tb.iter()).take_while(|(a, b)| a == b).count();
                v("C17/ignore/transcript-differs/pipelined".into(), format!("output line {} differs: clean {:?} vs noisy and pipelined {:?}", k, ta.get(k), tb.get(k)), &piped, &mut acc);
            }
        }
    }
    // ---- (lifecycle) end of input at every command boundary, and at sampled mid-line offsets
    for b in 0..=clean_lines.len() {
        let sc = script(&clean_lines[..b], true, false);
        let res = sa::run(&sc);
        acc.virtual_ns += res.virtual_ns;
        acc.evals += 1;
        acc.count("fault_fired:eof_at_command_boundary");
        acc.nontrivial.insert(fnv(b as u64, format!("{:?}", &clean_lines[..b]).as_bytes()));
        judge_eof(&sc, &res, false, &mut acc, run, b);
    }
    // ... and right after unknown / blank lines of the noisy script (a reader that treats
    // blank lines specially must still see the end of input behind them)
    let noise_idx: Vec<usize> = (1..noisy.len()).filter(|i| {
        let t = sa::tokens(&noisy[*i].0);
        t.is_empty() || !["uci", "isready", "ucinewgame", "position", "go", "setoption", "quit"].contains(&t[0])
    }).collect();
    for _ in 0..6.min(noise_idx.len()) {
        let i = *rng.pick(&noise_idx);
        // sometimes several blank lines in a row before the end
        let mut lines = noisy[..=i].to_vec();
        if rng.chance(1, 3) {
            lines.push((rng.pick(&["", " ", "\t", "  \t "]).to_string(), if rng.chance(1, 3) { "\r\n".into() } else { "\n".into() }));
        }
        let sc = script(&lines, true, false);
        let res = sa::run(&sc);
        acc.virtual_ns += res.virtual_ns;
        acc.evals += 1;
        acc.count("fault_fired:eof_after_noise_line");
        acc.nontrivial.insert(fnv(i as u64, format!("{:?}", lines).as_bytes()));
        judge_eof(&sc, &res, false, &mut acc, run, lines.len());
    }
    for _ in 0..2 {
        let b = rng.below(clean_lines.len() as u64) as usize;
        let line = &clean_lines[b].0;
        if line.len() < 2 {
            continue;
        }
        // keep `position fen` prefixes whole: a truncated known command is malformed input, not unknown input
        let cut = 1 + rng.below(line.len() as u64 - 1) as usize;
        if !line.is_char_boundary(cut) {
            continue;
        }
        let mut lines = clean_lines[..b].to_vec();
        lines.push((line[..cut].to_string(), String::new()));
        let sc = script(&lines, true, false);
        let res = sa::run(&sc);
        acc.virtual_ns += res.virtual_ns;
        acc.evals += 1;
        acc.count("fault_fired:eof_mid_line");
        judge_eof(&sc, &res, true, &mut acc, run, b);
    }
    acc
}

/// isready -> exactly one readyok; quit -> exit with no further output
fn judge_lifecycle(sc: &Scenario, res: &SimResult, has_quit: bool, acc: &mut Acc, run: u64) {
    let tr = sa::extract(res);
    let mut scj = sc.to_json();
    scj["check"] = json!("C17");
    for c in &tr.cmds {
        if c.toks.first().map(|s| s == "isready").unwrap_or(false) && c.toks.len() == 1 {
            let n = c.outs.iter().filter(|o| o.line == "readyok").count();
            if n != 1 {
                acc.violate(Violation { prop: "C17".into(), sig: format!("C17/isready/readyok-count-{}", n.min(2)), detail: format!("isready answered by {} readyok lines", n), scenario: scj.clone(), run });
            }
        }
    }
    if has_quit {
        match tr.cmds.iter().find(|c| c.toks.first().map(|s| s == "quit").unwrap_or(false)) {
            Some(c) => {
                let by_io: Vec<&sa::Out> = c.outs.iter().filter(|o| o.tid == 0).collect();
                if !matches!(res.end, SimEnd::Exit(_) | SimEnd::IoReturned) {
                    acc.violate(Violation { prop: "C17".into(), sig: format!("C17/quit/no-exit/{}", crate::sa_checks::end_name(&res.end)), detail: format!("after quit the process did not end: {:?}", res.end), scenario: scj.clone(), run });
                } else if !by_io.is_empty() {
                    acc.violate(Violation { prop: "C17".into(), sig: "C17/quit/output-after-quit".into(), detail: format!("output after quit: {:?}", by_io[0].line), scenario: scj.clone(), run });
                }
            }
            None => {
                if !matches!(res.end, SimEnd::IoPanicked(_)) {
                    acc.violate(Violation { prop: "C17".into(), sig: format!("C17/quit/never-read/{}", crate::sa_checks::end_name(&res.end)), detail: format!("the quit line was never dequeued; the session ended with {:?}", res.end), scenario: scj.clone(), run });
                } else if let SimEnd::IoPanicked(m) = &res.end {
                    acc.violate(Violation { prop: "C17".into(), sig: "C17/crash".into(), detail: format!("the engine crashed on a well-formed script: {}", m), scenario: scj.clone(), run });
                }
            }
        }
    }
}

fn judge_eof(sc: &Scenario, res: &SimResult, mid_line: bool, acc: &mut Acc, run: u64, b: usize) {
    let mut scj = sc.to_json();
    scj["check"] = json!("C17");
    let ok = match &res.end {
        SimEnd::Exit(_) | SimEnd::IoReturned => true,
        // a truncated *known* command is malformed input; dying on it still ends the process
        SimEnd::IoPanicked(_) => mid_line,
        _ => false,
    };
    if !ok {
        let cls = match &res.end {
            SimEnd::EofSpin => "keeps-reading-after-eof".to_string(),
            other => crate::sa_checks::end_name(other).to_string(),
        };
        acc.violate(Violation {
            prop: "C17".into(),
            sig: format!("C17/eof/{}{}", cls, if b == 0 { "/before-handshake" } else { "" }),
            detail: format!("stdin closed after {} command(s){}: the process did not end ({:?})", b, if mid_line { " and a partial line" } else { "" }, res.end),
            scenario: scj,
            run,
        });
    }
}

pub fn replay_c17(scv: &Value) -> Acc {
    let mut acc = Acc::new();
    if let Some(n) = scv["flood_blank_lines"].as_u64() {
        acc.evals += 1;
        if let (_, Some(v)) = flood_stage(n as usize, scv["flood_kind"].as_str().unwrap_or("blank"), 120) {
            acc.violate(v);
        }
        return acc;
    }
    let sc = match Scenario::from_json(scv) {
        Some(s) => s,
        None => return acc,
    };
    let res = sa::run(&sc);
    let has_quit = sc.steps.iter().any(|s| matches!(s, Step::Line { text, .. } if text == "quit"));
    let closes = sc.steps.iter().any(|s| matches!(s, Step::Close));
    if closes && !has_quit {
        let mid = sc.steps.iter().any(|s| matches!(s, Step::Line { eol, .. } if eol.is_empty()));
        let b = sc.steps.iter().filter(|s| matches!(s, Step::Line { .. })).count();
        judge_eof(&sc, &res, mid, &mut acc, 0, if mid { b - 1 } else { b });
    } else {
        judge_lifecycle(&sc, &res, has_quit, &mut acc, 0);
        // the ignore clause is relative to the clean script: rebuild it by dropping what the
        // harness reads as noise (unknown first token) and normalising whitespace / go tokens
        let mut clean = Scenario::new();
        clean.c_node_ns = sc.c_node_ns;
        for s in &sc.steps {
            if let Step::Line { text, .. } = s {
                let toks = sa::tokens(text);
                let known = ["uci", "isready", "ucinewgame", "position", "go", "setoption", "quit"];
                if toks.is_empty() || !known.contains(&toks[0]) {
                    continue;
                }
                let mut t: Vec<String> = toks.iter().map(|x| x.to_string()).collect();
                if t[0] == "go" {
                    let mut out = vec!["go".to_string()];
                    let mut k = 1;
                    while k + 1 < t.len() {
                        if ["wtime", "btime", "winc", "binc", "movestogo"].contains(&t[k].as_str()) && t[k + 1].parse::<i128>().is_ok() {
                            out.push(t[k].clone());
                            out.push(t[k + 1].clone());
                            k += 2;
                        } else {
                            k += 1;
                        }
                    }
                    t = out;
                }
                clean.line(&t.join(" "));
                if let Some(Step::Line { wait, .. }) = clean.steps.last_mut() {
                    *wait = sa::wait_pattern(&t.join(" ")).is_some();
                }
            }
        }
        let cres = sa::run(&clean);
        let mut scj = sc.to_json();
        scj["check"] = json!("C17");
        if let Some(m) = io_panic(&res) {
            if io_panic(&cres).is_none() {
                acc.violate(Violation { prop: "C17".into(), sig: "C17/ignore/crash".into(), detail: m, scenario: scj, run: 0 });
            }
        } else if transcript(&cres) != transcript(&res) {
            acc.violate(Violation { prop: "C17".into(), sig: "C17/ignore/transcript-differs".into(), detail: format!("clean {:?} vs noisy {:?}", transcript(&cres), transcript(&res)), scenario: scj, run: 0 });
        } else if probe_seq(&cres) != probe_seq(&res) {
            acc.violate(Violation { prop: "C17".into(), sig: "C17/ignore/state-differs".into(), detail: "state differs".into(), scenario: scj, run: 0 });
        }
    }
    acc
}

/// drop steps while the signature persists
pub fn minimise_c17(v: &Violation) -> Violation {
    let mut best = match Scenario::from_json(&v.scenario) {
        Some(s) => s,
        None => return v.clone(),
    };
    let still = |s: &Scenario| -> Option<Violation> { replay_c17(&s.to_json()).violations.into_iter().find(|x| x.sig == v.sig) };
    if still(&best).is_none() {
        return v.clone();
    }
    let mut out = v.clone();
    let mut i = best.steps.len();
    while i > 1 {
        i -= 1;
        if matches!(best.steps[i], Step::Close) || matches!(&best.steps[i], Step::Line { text, .. } if text == "quit") {
            continue;
        }
        let mut t = best.clone();
        t.steps.remove(i);
        if let Some(x) = still(&t) {
            best = t;
            out = x;
        }
    }
    out.run = v.run;
    let mut j = best.to_json();
    j["check"] = json!("C17");
    out.scenario = j;
    out
}

// ------------------------------------------------------------------------------------------
// C16

#[derive(Clone, Debug, PartialEq)]
struct InfoRec {
    depth: u32,
    nodes: u64,
    score: String,
    first_pv: String,
}

fn parse_info(line: &str) -> Option<InfoRec> {
    let t: Vec<&str> = line.split(' ').collect();
    if t.first() != Some(&"info") {
        return None;
    }
    let pos = |k: &str| t.iter().position(|x| *x == k);
    let pv = pos("pv")?;
    let d = pos("depth")?;
    let n = pos("nodes")?;
    let s = pos("score")?;
    Some(InfoRec { depth: t.get(d + 1)?.parse().ok()?, nodes: t.get(n + 1)?.parse().ok()?, score: format!("{} {}", t.get(s + 1)?, t.get(s + 2)?), first_pv: t.get(pv + 1)?.to_string() })
}

struct ReplyRec {
    bestmove: Option<String>,
    infos: Vec<InfoRec>,
}

/// the reply to the last `go` of the session that is followed by the marker isready
fn reply_of_probe(res: &SimResult, probe_go_index_from_end: usize) -> Option<ReplyRec> {
    reply_of_probe_view(res, probe_go_index_from_end, false)
}

/// `as_the_gui_sees_it`: every info line printed between the go and its bestmove, whichever
/// thread printed it (used when no delay was injected: then no thread of an earlier search can
/// legitimately still be printing); otherwise only the lines of this go's own search thread
fn reply_of_probe_view(res: &SimResult, probe_go_index_from_end: usize, as_the_gui_sees_it: bool) -> Option<ReplyRec> {
    let tr = sa::extract(res);
    let gos: Vec<&sa::Cmd> = tr.cmds.iter().filter(|c| c.toks.first().map(|s| s == "go").unwrap_or(false)).collect();
    if gos.len() <= probe_go_index_from_end {
        return None;
    }
    let c = gos[gos.len() - 1 - probe_go_index_from_end];
    let bestmove = c.outs.iter().find(|o| o.tid == 0 && o.line.starts_with("bestmove")).map(|o| o.line.clone());
    let tid = c.search_tid;
    let infos: Vec<InfoRec> = if as_the_gui_sees_it {
        let end = c.outs.iter().position(|o| o.line.starts_with("bestmove")).unwrap_or(c.outs.len());
        c.outs[..end].iter().filter(|o| o.line.starts_with("info")).filter_map(|o| parse_info(&o.line)).collect()
    } else {
        tr.search_outs.iter().filter(|(t, _)| Some(*t) == tid).filter_map(|(_, o)| parse_info(&o.line)).collect()
    };
    Some(ReplyRec { bestmove, infos })
}

pub fn run_c16(seed: u64, run: u64) -> Acc {
    let mut rng = Rng::new(crate::rng::mix(seed, "C16", run));
    let mut acc = Acc::new();
    // the probed request R
    let g = workload::gen_game(&mut rng, 20);
    let fin = g.final_pos();
    if fin.is_terminal() {
        return acc;
    }
    let timed = rng.chance(1, 2);
    let pos_line = sa::position_line(&g.start, &g.moves, &mut rng);
    let go_line = if timed {
        let (my, other) = if fin.white_to_move { ("w", "b") } else { ("b", "w") };
        let plan = rng.range(2, 30);
        format!("go {}time {} {}time {}", my, 100 + (plan * 300 + 7) / 8, other, rng.range(0, 100000))
    } else {
        sa::gen_go(&mut rng, false, fin.white_to_move)
    };
    let c_node = *rng.pick(&[1_000u64, 5_000, 20_000, 100_000]);
    // (A) fresh engine
    let mut a = Scenario::new();
    a.c_node_ns = c_node;
    a.line("uci");
    a.line(&pos_line);
    a.line(&go_line);
    a.line("isready");
    a.line("quit");
    // (B) after arbitrary earlier traffic
    let mut b = Scenario::new();
    b.c_node_ns = c_node;
    b.line("uci");
    let mut shape = String::new();
    let n_items = 1 + rng.below(6);
    let mut n_go_prefix = 0;
    for _ in 0..n_items {
        match rng.below(9) {
            0 => {
                b.line("ucinewgame");
                shape.push('n');
            }
            1 => {
                b.line("setoption name DebugLogLevel value Info");
                shape.push('o');
            }
            2 => {
                b.line(&noise_line(&mut rng));
                shape.push('x');
            }
            3 => {
                // a longer or shorter version of X's own game
                let k = rng.below(g.moves.len() as u64 + 1) as usize;
                b.line(&sa::position_line(&g.start, &g.moves[..k], &mut rng));
                shape.push('s');
                let sub = (workload::Game { start: g.start.clone(), moves: g.moves[..k].to_vec(), source: "" }).final_pos();
                if !sub.is_terminal() && rng.chance(1, 2) {
                    b.line(&sa::gen_go(&mut rng, true, sub.white_to_move));
                    n_go_prefix += 1;
                    shape.push('g');
                }
            }
            4 => {
                // R itself, earlier
                b.line(&pos_line);
                b.line(&go_line);
                n_go_prefix += 1;
                shape.push('R');
            }
            5 => {
                // a longer version: X's game continued
                let ext = workload::random_walk(&mut rng, &fin, 4, workload::Bias::Tactical);
                let mut ms = g.moves.clone();
                ms.extend(ext);
                b.line(&sa::position_line(&g.start, &ms, &mut rng));
                shape.push('l');
            }
            _ => {
                // another game with timed and zero-slice go commands (left-over search threads);
                // now and then a position with a single legal move (engines answer those early)
                let og = if rng.chance(1, 5) && !workload::forced_move_pool().is_empty() {
                    let p = if rng.chance(1, 3) && !workload::forced_special_pool().is_empty() { rng.pick(workload::forced_special_pool()).pos.clone() } else { rng.pick(workload::forced_move_pool()).clone() };
                    workload::Game { start: p, moves: vec![], source: "forced" }
                } else {
                    workload::gen_game(&mut rng, 20)
                };
                b.line(&sa::position_line(&og.start, &og.moves, &mut rng));
                shape.push('p');
                let p: Pos = og.final_pos();
                let mut white = p.white_to_move;
                for _ in 0..1 + rng.below(3) {
                    if p.is_terminal() {
                        break;
                    }
                    // (consecutive go commands continue from the engine's own reply, which no
                    // model predicts - nor needs to: any well-formed traffic may precede R)
                    b.line(&sa::gen_go(&mut rng, true, white));
                    white = !white;
                    n_go_prefix += 1;
                    shape.push('g');
                }
            }
        }
        if rng.chance(1, 4) {
            b.line("isready");
        }
    }
    b.line(&pos_line);
    b.line(&go_line);
    b.line("isready");
    let repeat = rng.chance(1, 2);
    if repeat {
        b.line(&pos_line);
        b.line(&go_line);
        b.line("isready");
    }
    b.line("quit");
    // timing faults only inside the prefix
    if n_go_prefix > 0 && rng.chance(1, 2) {
        b.jitter_max_ns = 0;
        let enabled = [true, true, true, false, true];
        sa::gen_timing_faults(&mut rng, &mut b, n_go_prefix, &enabled);
    }
    let ra = sa::run(&a);
    let rb = sa::run(&b);
    acc.virtual_ns += ra.virtual_ns + rb.virtual_ns;
    acc.evals += 1;
    acc.count(&format!("probe_kind:{}", if timed { "timed" } else { "zero-slice" }));
    if shape.contains('p') || shape.contains('s') || shape.contains('l') || shape.contains('R') {
        acc.nontrivial.insert(fnv(fin.canon_hash(), format!("{}|{}", shape, go_line).as_bytes()));
    }
    if run < 2 {
        acc.sample(json!({"fresh": sa::describe(&a)["script"], "after_traffic": sa::describe(&b)["script"]}));
    }
    let scj = json!({"family": "SA", "check": "C16", "fresh": a.to_json(), "after_traffic": b.to_json(), "repeat": repeat, "timed": timed});
    let mut v = |sig: String, detail: String, acc: &mut Acc| {
        acc.violate(Violation { prop: "C16".into(), sig, detail, scenario: scj.clone(), run });
    };
    let gui_view = b.faults.is_empty() && b.jitter_max_ns == 0 && b.gui_latency_ns >= 50_000;
    if gui_view {
        acc.count("c16_replies_compared_as_the_gui_sees_them");
    }
    let rep_a = reply_of_probe_view(&ra, 0, gui_view);
    let rep_b_last = reply_of_probe_view(&rb, 0, gui_view);
    let rep_b_first = if repeat { reply_of_probe_view(&rb, 1, gui_view) } else { None };
    let (rep_a, rep_b) = match (rep_a, rep_b_last) {
        (Some(x), Some(y)) => (x, y),
        _ => {
            if !matches!(rb.end, SimEnd::Exit(_)) {
                v(format!("C16/session-broke/{}", crate::sa_checks::end_name(&rb.end)), format!("the session with earlier traffic ended with {:?}", rb.end), &mut acc);
            }
            return acc;
        }
    };
    if !matches!(rb.end, SimEnd::Exit(_)) && matches!(ra.end, SimEnd::Exit(_)) {
        v(format!("C16/session-broke/{}", crate::sa_checks::end_name(&rb.end)), format!("the session with earlier traffic ended with {:?}", rb.end), &mut acc);
        return acc;
    }
    let mut pairs = vec![("fresh-vs-after-traffic", &rep_a, &rep_b)];
    if let Some(f) = &rep_b_first {
        pairs.push(("repeated-request", f, &rep_b));
    }
    for (what, x, y) in pairs {
        if !timed {
            if x.bestmove != y.bestmove {
                v(format!("C16/zero-slice/{}", what), format!("{} then {}: {:?} vs {:?}", pos_line, go_line, x.bestmove, y.bestmove), &mut acc);
            } else if x.infos.is_empty() != y.infos.is_empty() {
                // the reply is a function of X and the go parameters alone: a request that is
                // answered at once in one session cannot be searched in another
                v(format!("C16/zero-slice/searched-in-one-session-only/{}", what), format!("{} then {}: {} vs {} reported improvements", pos_line, go_line, x.infos.len(), y.infos.len()), &mut acc);
            }
        } else {
            let k = x.infos.len().min(y.infos.len());
            if x.infos[..k] != y.infos[..k] {
                let i = (0..k).find(|i| x.infos[*i] != y.infos[*i]).unwrap();
                v(format!("C16/timed/{}", what), format!("{} then {}: improvement #{} differs: {:?} vs {:?}", pos_line, go_line, i, x.infos[i], y.infos[i]), &mut acc);
            }
        }
    }
    if timed {
        for (what, x) in [("fresh", &rep_a), ("after-traffic", &rep_b)] {
            if let Some(bm) = &x.bestmove {
                let mv = bm.split(' ').nth(1).unwrap_or("");
                if !x.infos.is_empty() && mv.len() >= 4 && !x.infos.iter().any(|i| i.first_pv.len() >= 4 && i.first_pv[..4] == mv[..4]) {
                    v(format!("C16/bestmove-not-among-own-improvements/{}", what), format!("{:?} but reported first PV moves {:?}", bm, x.infos.iter().map(|i| i.first_pv.clone()).collect::<Vec<_>>()), &mut acc);
                }
            }
        }
    }
    // left-over search threads dying on a dropped receiver are expected; anything else is noted
    {
        // a thread spawned during a go that is still doing something (sending, printing, ending)
        // after that go's bestmove went out
        use crate::verif_seam::kernel::EvKind as K;
        let mut spawned_at: std::collections::HashMap<usize, usize> = std::collections::HashMap::new();
        for (k, e) in rb.events.iter().enumerate() {
            if let K::Spawn(c) = &e.kind {
                spawned_at.insert(*c, k);
            }
        }
        let mut counted = std::collections::HashSet::new();
        for (tid, k0) in &spawned_at {
            if let Some(kb) = rb.events[*k0..].iter().position(|e| matches!(&e.kind, K::Emit(l) if l.starts_with("bestmove"))) {
                let tb = rb.events[*k0 + kb].t;
                if rb.events[*k0 + kb..].iter().any(|e| e.tid == *tid && e.t > tb && matches!(e.kind, K::Send { .. } | K::Emit(_) | K::ThreadEnd(_))) && counted.insert(*tid) {
                    acc.count("probe_leftover_search_thread_outlived_its_go");
                }
            }
        }
    }
    for e in &rb.events {
        if let crate::verif_seam::kernel::EvKind::ThreadEnd(EndKind::Panic(m)) = &e.kind {
            if e.tid != 0 && m.contains("SendError") {
                acc.count("probe_leftover_search_thread_died_on_a_dropped_receiver");
            }
        }
        if let crate::verif_seam::kernel::EvKind::FaultFired(f) = &e.kind {
            acc.count(&format!("fault_fired:{}", f.split(' ').next().unwrap_or("?")));
        }
    }
    acc
}

pub fn replay_c16(scv: &Value) -> Acc {
    let mut acc = Acc::new();
    let (a, b) = match (Scenario::from_json(&scv["fresh"]), Scenario::from_json(&scv["after_traffic"])) {
        (Some(a), Some(b)) => (a, b),
        _ => return acc,
    };
    let repeat = scv["repeat"].as_bool().unwrap_or(false);
    let ra = sa::run(&a);
    let rb = sa::run(&b);
    let gui_view = b.faults.is_empty() && b.jitter_max_ns == 0 && b.gui_latency_ns >= 50_000;
    let (x, y) = match (reply_of_probe_view(&ra, 0, gui_view), reply_of_probe_view(&rb, 0, gui_view)) {
        (Some(x), Some(y)) => (x, y),
        _ => {
            acc.violate(Violation { prop: "C16".into(), sig: format!("C16/session-broke/{}", crate::sa_checks::end_name(&rb.end)), detail: format!("{:?}", rb.end), scenario: scv.clone(), run: 0 });
            return acc;
        }
    };
    let first = if repeat { reply_of_probe_view(&rb, 1, gui_view) } else { None };
    let timed = scv["timed"].as_bool().unwrap_or(!x.infos.is_empty() || !y.infos.is_empty());
    let mut pairs = vec![("fresh-vs-after-traffic", &x, &y)];
    if let Some(f) = &first {
        pairs.push(("repeated-request", f, &y));
    }
    for (what, p, q) in pairs {
        if !timed && p.bestmove != q.bestmove {
            acc.violate(Violation { prop: "C16".into(), sig: format!("C16/zero-slice/{}", what), detail: format!("{:?} vs {:?}", p.bestmove, q.bestmove), scenario: scv.clone(), run: 0 });
        } else if !timed && p.infos.is_empty() != q.infos.is_empty() {
            acc.violate(Violation { prop: "C16".into(), sig: format!("C16/zero-slice/searched-in-one-session-only/{}", what), detail: format!("{} vs {} reported improvements", p.infos.len(), q.infos.len()), scenario: scv.clone(), run: 0 });
        }
        if !timed {
            continue;
        }
        let k = p.infos.len().min(q.infos.len());
        if p.infos[..k] != q.infos[..k] {
            acc.violate(Violation { prop: "C16".into(), sig: format!("C16/timed/{}", what), detail: format!("{:?} vs {:?}", &p.infos[..k], &q.infos[..k]), scenario: scv.clone(), run: 0 });
        }
    }
    acc
}

/// Fidelity self-test: timing-free scripts (zero-slice go commands, isready, quit or EOF) must
/// give the same stdout transcript in the simulator and in the real release binary driven
/// through pipes. Returns (scripts compared, first difference).
pub fn fidelity(bin: &str, n: u64) -> (u64, Option<String>) {
    use std::io::Write;
    for r in 0..n {
        let mut rng = Rng::new(crate::rng::mix(4242, "fidelity", r));
        let mut lines = base_script(&mut rng);
        // every other script carries noise lines after the handshake (the real binary gets the
        // invalid-UTF-8 mark as the byte 0xFF)
        if r % 2 == 1 {
            let mut noisy = vec![];
            for (i, l) in lines.iter().enumerate() {
                noisy.push(l.clone());
                if i > 0 || lines.len() == 1 {
                    while rng.chance(1, 3) {
                        noisy.push(noise_line(&mut rng));
                    }
                }
            }
            lines = noisy;
        }
        let eof = rng.chance(1, 3);
        if !eof {
            lines.push("quit".into());
        }
        // simulator
        let pairs: Vec<(String, String)> = lines.iter().map(|l| (l.clone(), "\n".to_string())).collect();
        let sc = script(&pairs, eof, false);
        let sim = sa::run(&sc);
        let sim_lines: Vec<String> = sim.out.iter().map(|(_, _, l)| strip_time(l)).collect();
        // real binary
        let mut child = match std::process::Command::new(bin).stdin(std::process::Stdio::piped()).stdout(std::process::Stdio::piped()).stderr(std::process::Stdio::null()).spawn() {
            Ok(c) => c,
            Err(e) => return (r, Some(format!("cannot start {}: {}", bin, e))),
        };
        {
            let mut stdin = child.stdin.take().unwrap();
            for l in &lines {
                let mut bytes: Vec<u8> = vec![];
                for c in l.chars() {
                    if c == crate::verif_seam::INVALID_UTF8_MARK {
                        bytes.push(0xFF);
                    } else {
                        let mut b = [0u8; 4];
                        bytes.extend_from_slice(c.encode_utf8(&mut b).as_bytes());
                    }
                }
                bytes.push(b'\n');
                let _ = stdin.write_all(&bytes);
            }
            // dropping stdin closes it (EOF)
        }
        let out = match child.wait_with_output() {
            Ok(o) => o,
            Err(e) => return (r, Some(format!("wait failed: {}", e))),
        };
        let real_lines: Vec<String> = String::from_utf8_lossy(&out.stdout).lines().map(strip_time).collect();
        if sim_lines != real_lines {
            let k = sim_lines.iter().zip(real_lines.iter()).take_while(|(a, b)| a == b).count();
            return (r, Some(format!("script {:?}: line {} differs: simulator {:?} vs real binary {:?}", lines, k, sim_lines.get(k), real_lines.get(k))));
        }
        let sim_clean = matches!(sim.end, SimEnd::Exit(_) | SimEnd::IoReturned);
        if !sim_clean || out.status.code().is_none() {
            return (r, Some(format!("script {:?}: simulator end {:?}, real exit {:?}", lines, sim.end, out.status.code())));
        }
    }
    (n, None)
}

/// drop faults and prefix steps of the after-traffic session while the signature persists
pub fn minimise_c16(v: &Violation) -> Violation {
    let fresh = v.scenario["fresh"].clone();
    let mut best = match Scenario::from_json(&v.scenario["after_traffic"]) {
        Some(s) => s,
        None => return v.clone(),
    };
    let repeat = v.scenario["repeat"].clone();
    let build = |s: &Scenario| json!({"family": "SA", "check": "C16", "fresh": fresh, "after_traffic": s.to_json(), "repeat": repeat});
    let still = |s: &Scenario| -> Option<Violation> { replay_c16(&build(s)).violations.into_iter().find(|x| x.sig == v.sig) };
    if still(&best).is_none() {
        return v.clone();
    }
    let mut out = v.clone();
    let mut i = 0;
    while i < best.faults.len() {
        let mut t = best.clone();
        t.faults.remove(i);
        if let Some(x) = still(&t) {
            best = t;
            out = x;
        } else {
            i += 1;
        }
    }
    // the probed request is the last position+go(+isready) before quit: keep the tail, drop from the prefix
    let protect_tail = if repeat.as_bool().unwrap_or(false) { 7 } else { 4 };
    let mut i = best.steps.len().saturating_sub(protect_tail);
    while i > 1 {
        i -= 1;
        let mut t = best.clone();
        t.steps.remove(i);
        if let Some(x) = still(&t) {
            best = t;
            out = x;
        }
    }
    out.run = v.run;
    out.scenario = build(&best);
    out
}

// ------------------------------------------------------------------------------------------
// C17 flood stage: a very long run of blank lines between two isready probes.  The session is
// simulated as every other one (real command loop on the seam), but in a CHILD process of the
// harness, because the failure it looks for - a command loop that recurses per ignored line -
// ends in a real stack overflow, which aborts the process it happens in.  The parent holds a
// wall-clock limit on the child; running out of it is "inconclusive", never a verdict.

pub fn flood_scenario(n: usize, kind: &str) -> Scenario {
    let mut sc = Scenario::new();
    sc.line("uci");
    sc.line("isready");
    for _ in 0..n {
        sc.line_nowait(if kind == "unknown" { "xyzzy 42" } else { "" });
    }
    sc.line("isready");
    sc.line("quit");
    sc
}

/// body of `wsim flood <n>` (the child)
pub fn flood_child(n: usize, kind: &str) -> i32 {
    let sc = flood_scenario(n, kind);
    let res = sa::run(&sc);
    let mut acc = Acc::new();
    judge_lifecycle(&sc, &res, true, &mut acc, 0);
    let sigs: Vec<String> = acc.violations.iter().map(|v| v.sig.clone()).collect();
    std::println!("flood-result end={} violations=[{}]", crate::sa_checks::end_name(&res.end), sigs.join(","));
    0
}

/// (status for the evidence file, violation if one was positively identified)
pub fn flood_stage(n: usize, kind: &str, limit_s: u64) -> (String, Option<Violation>) {
    use std::io::Read;
    use std::os::unix::process::ExitStatusExt;
    let exe = match std::env::current_exe() {
        Ok(e) => e,
        Err(e) => return (format!("inconclusive: current_exe: {}", e), None),
    };
    let mut child = match std::process::Command::new(exe)
        .arg("flood")
        .arg(n.to_string())
        .arg(kind)
        .stdin(std::process::Stdio::null())
        .stdout(std::process::Stdio::piped())
        .stderr(std::process::Stdio::piped())
        .spawn()
    {
        Ok(c) => c,
        Err(e) => return (format!("inconclusive: spawn: {}", e), None),
    };
    // the child prints one short line and, on a crash, a short message: far below a pipe buffer
    let deadline = std::time::Instant::now() + std::time::Duration::from_secs(limit_s);
    let status = loop {
        match child.try_wait() {
            Ok(Some(s)) => break s,
            Ok(None) => {}
            Err(e) => {
                let _ = child.kill();
                let _ = child.wait();
                return (format!("inconclusive: wait: {}", e), None);
            }
        }
        if std::time::Instant::now() >= deadline {
            let _ = child.kill();
            let _ = child.wait();
            return (format!("inconclusive: the child did not finish within {} s (killed)", limit_s), None);
        }
        std::thread::sleep(std::time::Duration::from_millis(20));
    };
    let (mut out, mut err) = (String::new(), String::new());
    if let Some(mut o) = child.stdout.take() {
        let _ = o.read_to_string(&mut out);
    }
    if let Some(mut e) = child.stderr.take() {
        let _ = e.read_to_string(&mut err);
    }
    let scenario = json!({"family": "SA", "check": "C17", "flood_blank_lines": n, "flood_kind": kind});
    let mk = |sig: String, detail: String| Violation { prop: "C17".into(), sig, detail, scenario: scenario.clone(), run: 0 };
    if let Some(sig) = status.signal() {
        if err.contains("overflowed its stack") {
            return ("stack overflow".into(), Some(mk("C17/flood/stack-overflow".into(), format!("uci, isready, {} {} lines, isready, quit: the engine's thread overflowed its stack (child ended by signal {})", n, kind, sig))));
        }
        return (format!("inconclusive: child ended by signal {} without a stack-overflow message", sig), None);
    }
    match out.lines().find(|l| l.starts_with("flood-result ")) {
        Some(l) if l.ends_with("violations=[]") => ("ok".into(), None),
        Some(l) => {
            let sigs = l.split("violations=[").nth(1).unwrap_or("").trim_end_matches(']').to_string();
            let first = sigs.split(',').next().unwrap_or("").trim_start_matches("C17/").to_string();
            ("lifecycle violation".into(), Some(mk(format!("C17/flood/{}", first), format!("uci, isready, {} {} lines, isready, quit: {}", n, kind, l))))
        }
        None => (format!("inconclusive: child exit {:?} without a result line", status.code()), None),
    }
}
