//! S-A: session simulation. The whole engine process (play_game_uci, the search threads it
//! spawns, the channel, the deadline clock, stdin/stdout, exit) runs under the DES kernel,
//! driven by a scripted GUI. This module holds the scenario value (the replay file), the
//! trace extracted from the event log, the session model, and the generators.
use crate::bridge::*;
use crate::referee::{self as r, Mv, Pos};
use crate::rng::Rng;
use crate::verif_seam::kernel::{run_sim, EndKind, EvKind, Fault, GuiAction, Pat, SimConfig, SimEnd, SimResult};
use serde_json::{json, Value};

pub const MS: u64 = 1_000_000;

#[derive(Clone, Debug, PartialEq)]
pub enum Step {
    /// a line written to the engine (without the trailing newline, which `eol` supplies)
    Line { text: String, eol: String, wait: bool },
    Delay(u64),
    Close,
}

#[derive(Clone, Debug)]
pub struct Scenario {
    pub c_node_ns: u64,
    pub jitter_max_ns: u64,
    pub jitter_seed: u64,
    pub ties: u64,
    pub gui_latency_ns: u64,
    pub faults: Vec<Fault>,
    pub steps: Vec<Step>,
}

impl Scenario {
    pub fn new() -> Scenario {
        Scenario { c_node_ns: 5_000, jitter_max_ns: 0, jitter_seed: 1, ties: 0, gui_latency_ns: 50_000, faults: vec![], steps: vec![] }
    }
    pub fn line(&mut self, text: &str) {
        let wait = wait_pattern(text).is_some();
        self.steps.push(Step::Line { text: text.to_string(), eol: "\n".into(), wait });
    }
    pub fn line_nowait(&mut self, text: &str) {
        self.steps.push(Step::Line { text: text.to_string(), eol: "\n".into(), wait: false });
    }

    pub fn to_json(&self) -> Value {
        let faults: Vec<Value> = self
            .faults
            .iter()
            .map(|f| match f {
                Fault::StallSearch { search, node, ns } => json!({"kind": "stall_search", "search": search, "node": node, "ns": ns}),
                Fault::OversleepIo { sleep, ns } => json!({"kind": "oversleep_io", "sleep": sleep, "ns": ns}),
                Fault::SpawnDelay { spawn, ns } => json!({"kind": "spawn_delay", "spawn": spawn, "ns": ns}),
                Fault::PauseAll { go, offset, ns } => json!({"kind": "pause_all", "go": go, "offset": offset, "ns": ns}),
                Fault::StallBeforeSend { search, send, ns } => json!({"kind": "stall_before_send", "search": search, "send": send, "ns": ns}),
            })
            .collect();
        let steps: Vec<Value> = self
            .steps
            .iter()
            .map(|s| match s {
                Step::Line { text, eol, wait } => json!({"line": text, "eol": eol, "wait": wait}),
                Step::Delay(d) => json!({"delay_ns": d}),
                Step::Close => json!({"close": true}),
            })
            .collect();
        json!({
            "family": "SA",
            "knobs": {"c_node_ns": self.c_node_ns, "jitter_max_ns": self.jitter_max_ns, "jitter_seed": self.jitter_seed, "ties": self.ties, "gui_latency_ns": self.gui_latency_ns},
            "faults": faults,
            "steps": steps,
        })
    }

    pub fn from_json(v: &Value) -> Option<Scenario> {
        let k = &v["knobs"];
        let mut s = Scenario::new();
        s.c_node_ns = k["c_node_ns"].as_u64()?;
        s.jitter_max_ns = k["jitter_max_ns"].as_u64()?;
        s.jitter_seed = k["jitter_seed"].as_u64()?;
        s.ties = k["ties"].as_u64()?;
        s.gui_latency_ns = k["gui_latency_ns"].as_u64()?;
        for f in v["faults"].as_array()? {
            let kind = f["kind"].as_str()?;
            s.faults.push(match kind {
                "stall_search" => Fault::StallSearch { search: f["search"].as_u64()? as usize, node: f["node"].as_u64()?, ns: f["ns"].as_u64()? },
                "oversleep_io" => Fault::OversleepIo { sleep: f["sleep"].as_u64()?, ns: f["ns"].as_u64()? },
                "spawn_delay" => Fault::SpawnDelay { spawn: f["spawn"].as_u64()? as usize, ns: f["ns"].as_u64()? },
                "pause_all" => Fault::PauseAll { go: f["go"].as_u64()? as usize, offset: f["offset"].as_u64()?, ns: f["ns"].as_u64()? },
                "stall_before_send" => Fault::StallBeforeSend { search: f["search"].as_u64()? as usize, send: f["send"].as_u64()?, ns: f["ns"].as_u64()? },
                _ => return None,
            });
        }
        for st in v["steps"].as_array()? {
            if let Some(l) = st.get("line") {
                s.steps.push(Step::Line { text: l.as_str()?.to_string(), eol: st["eol"].as_str().unwrap_or("\n").to_string(), wait: st["wait"].as_bool().unwrap_or(false) });
            } else if let Some(d) = st.get("delay_ns") {
                s.steps.push(Step::Delay(d.as_u64()?));
            } else if st.get("close").is_some() {
                s.steps.push(Step::Close);
            }
        }
        Some(s)
    }

    pub fn to_config(&self) -> SimConfig {
        let mut gui = vec![];
        for s in &self.steps {
            match s {
                Step::Line { text, eol, wait } => {
                    gui.push(GuiAction::Send(format!("{}{}", text, eol)));
                    if *wait {
                        if let Some(p) = wait_pattern(text) {
                            gui.push(GuiAction::WaitFor(p));
                        }
                    }
                }
                Step::Delay(d) => gui.push(GuiAction::Delay(*d)),
                Step::Close => gui.push(GuiAction::Close),
            }
        }
        SimConfig {
            c_node_ns: self.c_node_ns,
            jitter_max_ns: self.jitter_max_ns,
            jitter_seed: self.jitter_seed,
            ties: self.ties,
            gui_latency_ns: self.gui_latency_ns,
            faults: self.faults.clone(),
            gui,
            ..SimConfig::default()
        }
    }
}

/// harness-side reading of a line, as the UCI specification reads it: tokens separated by
/// arbitrary whitespace
pub fn tokens(line: &str) -> Vec<&str> {
    line.split_whitespace().collect()
}

pub fn wait_pattern(line: &str) -> Option<Pat> {
    match tokens(line).first().copied() {
        Some("uci") if tokens(line).len() == 1 => Some(Pat::Uciok),
        Some("isready") => Some(Pat::Readyok),
        Some("go") => Some(Pat::Bestmove),
        _ => None,
    }
}

pub fn run(sc: &Scenario) -> SimResult {
    run_sim(sc.to_config(), Box::new(|| crate::uci::play_game_uci()))
}

// ------------------------------------------------------------------------------------------
// trace

#[derive(Clone, Debug)]
pub struct Out {
    pub t: u64,
    pub tid: usize,
    pub line: String,
}

#[derive(Clone, Debug, Default)]
pub struct Cmd {
    pub raw: String,
    pub toks: Vec<String>,
    pub t: u64,
    /// everything printed after this command was dequeued and before the next one was
    pub outs: Vec<Out>,
    pub probes: Vec<usize>,
    pub search_tid: Option<usize>,
    /// (t, description) of boards sent by this go's search thread
    pub sends: Vec<(u64, String, bool)>,
    pub recv_ok: u32,
    pub recv_empty: u32,
    pub recv_disc: u32,
    /// faults that fired between this dequeue and the next, by thread (tid, text)
    pub fired: Vec<(usize, String)>,
    pub eof: bool,
}

pub struct Trace {
    pub cmds: Vec<Cmd>,
    /// lines printed by search threads, by tid
    pub search_outs: Vec<(usize, Out)>,
    pub thread_ends: Vec<(usize, EndKind, u64)>,
    pub end: SimEnd,
    pub t_end: u64,
    pub eof_reads: u32,
}

pub fn extract(res: &SimResult) -> Trace {
    let mut cmds: Vec<Cmd> = vec![];
    let mut search_outs = vec![];
    let mut thread_ends = vec![];
    let mut eof_reads = 0;
    // which go does a search tid belong to
    let mut owner: std::collections::HashMap<usize, usize> = std::collections::HashMap::new();
    for e in &res.events {
        match &e.kind {
            EvKind::ReadLine(s) => {
                cmds.push(Cmd { raw: s.clone(), toks: tokens(s).iter().map(|x| x.to_string()).collect(), t: e.t, ..Default::default() });
            }
            EvKind::ReadEof => {
                eof_reads += 1;
                if eof_reads == 1 {
                    cmds.push(Cmd { raw: String::new(), toks: vec![], t: e.t, eof: true, ..Default::default() });
                }
            }
            EvKind::Emit(line) => {
                let o = Out { t: e.t, tid: e.tid, line: line.clone() };
                if e.tid != 0 {
                    search_outs.push((e.tid, o.clone()));
                }
                if let Some(c) = cmds.last_mut() {
                    c.outs.push(o);
                }
            }
            EvKind::Spawn(child) => {
                if let Some(c) = cmds.last_mut() {
                    c.search_tid = Some(*child);
                    owner.insert(*child, cmds.len() - 1);
                }
            }
            EvKind::Send { ok, desc, .. } => {
                // (only boards: a message of another type belongs to a channel some refactor added)
                if let (Some(ci), false) = (owner.get(&e.tid), desc.starts_with("other:")) {
                    cmds[*ci].sends.push((e.t, desc.clone(), *ok));
                }
            }
            EvKind::RecvOk => {
                if let Some(c) = cmds.last_mut() {
                    c.recv_ok += 1;
                }
            }
            EvKind::RecvEmpty => {
                if let Some(c) = cmds.last_mut() {
                    c.recv_empty += 1;
                }
            }
            EvKind::RecvDisc => {
                if let Some(c) = cmds.last_mut() {
                    c.recv_disc += 1;
                }
            }
            EvKind::Probe(i) => {
                if let Some(c) = cmds.last_mut() {
                    c.probes.push(*i);
                }
            }
            EvKind::FaultFired(f) => {
                if let Some(c) = cmds.last_mut() {
                    c.fired.push((e.tid, f.clone()));
                }
            }
            EvKind::ThreadEnd(k) => thread_ends.push((e.tid, k.clone(), e.t)),
            _ => {}
        }
    }
    // An engine that reads stdin in a thread of its own reads ahead of what it is serving: "what
    // was printed after this line was read" then says nothing about which command an output
    // answers. For such engines outputs are attributed by protocol order instead.
    let reads_ahead = res.events.iter().any(|e| matches!(e.kind, EvKind::ReadLine(_)) && e.tid != 0);
    if reads_ahead {
        reattribute_by_protocol_order(res, &mut cmds);
    }
    if std::env::var("VERIF_DEBUG_TRACE").is_ok() {
        for e in &res.events {
            if !matches!(e.kind, EvKind::RecvEmpty) {
                eprintln!("ev t={} tid={} {:?}", e.t, e.tid as i64, e.kind);
            }
        }
        for c in &cmds {
            eprintln!("cmd t={} {:?} outs={:?} tid={:?} sends={} fired={:?} probes={:?}", c.t, c.raw.trim(), c.outs.iter().map(|o| (o.t, o.line.chars().take(20).collect::<String>())).collect::<Vec<_>>(), c.search_tid, c.sends.len(), c.fired, c.probes);
        }
    }
    Trace { cmds, search_outs, thread_ends, end: res.end.clone(), t_end: res.virtual_ns, eof_reads }
}

/// Protocol-order attribution (black-box view): the k-th `bestmove` answers the k-th `go`, the
/// k-th `readyok` the k-th `isready`; a command starts when it has arrived AND everything before
/// it has been answered (`Cmd::t` becomes that instant); thread spawns, sends, polls, probes and
/// fired faults are attributed by those windows.
fn reattribute_by_protocol_order(res: &SimResult, cmds: &mut Vec<Cmd>) {
    let outs: Vec<Out> = res.events.iter().filter_map(|e| if let EvKind::Emit(l) = &e.kind { Some(Out { t: e.t, tid: e.tid, line: l.clone() }) } else { None }).collect();
    let reader_tids: std::collections::HashSet<usize> = res.events.iter().filter(|e| matches!(e.kind, EvKind::ReadLine(_) | EvKind::ReadEof)).map(|e| e.tid).collect();
    // a line read by a reader thread is available to the command loop when it is forwarded (a
    // delay injected into that thread is part of the input path, like GUI latency)
    {
        let mut ci = 0usize;
        let evs = &res.events;
        for (k, e) in evs.iter().enumerate() {
            let is_read = matches!(e.kind, EvKind::ReadLine(_)) || (matches!(e.kind, EvKind::ReadEof) && cmds.get(ci).map(|c| c.eof).unwrap_or(false));
            if !is_read {
                continue;
            }
            if ci >= cmds.len() {
                break;
            }
            if e.tid != 0 {
                for f in evs[k + 1..].iter() {
                    if f.tid != e.tid {
                        continue;
                    }
                    match &f.kind {
                        EvKind::Send { desc, .. } if desc.starts_with("other:") => {
                            cmds[ci].t = f.t;
                            break;
                        }
                        EvKind::ReadLine(_) | EvKind::ReadEof | EvKind::ThreadEnd(_) => break,
                        _ => {}
                    }
                }
            }
            ci += 1;
        }
    }
    let mut next_out = 0usize;
    let mut t_free = 0u64;
    let n = cmds.len();
    for i in 0..n {
        let arrival = cmds[i].t;
        // what was printed before this line even arrived belongs to the command before it
        let mut early: Vec<Out> = vec![];
        while next_out < outs.len() && outs[next_out].t < arrival {
            early.push(outs[next_out].clone());
            next_out += 1;
        }
        if i > 0 {
            if let Some(last) = early.last() {
                t_free = t_free.max(last.t);
            }
            cmds[i - 1].outs.extend(early);
        } else {
            cmds[0].outs = early;
        }
        let c = &mut cmds[i];
        if i > 0 || !c.outs.is_empty() {
            // (outs of command 0 were just set)
        }
        if i > 0 {
            c.outs.clear();
        }
        c.probes.clear();
        c.sends.clear();
        c.fired.clear();
        c.search_tid = None;
        c.recv_ok = 0;
        c.recv_empty = 0;
        c.recv_disc = 0;
        let t0 = c.toks.first().map(|s| s.as_str()).unwrap_or("");
        let target: Option<&str> = match t0 {
            "uci" => Some("uciok"),
            "isready" => Some("readyok"),
            "go" => Some("bestmove"),
            _ => None,
        };
        c.t = arrival.max(t_free);
        if let Some(target) = target {
            // scan forward for the answer; another command's answer in between means this one got none
            let mut j = next_out;
            let mut found = None;
            while j < outs.len() {
                let l = &outs[j].line;
                let is = |k: &str| l == k || l.starts_with(&format!("{} ", k));
                if is(target) {
                    found = Some(j);
                    break;
                }
                if (target != "bestmove" && is("bestmove")) || (target != "readyok" && is("readyok")) || (target != "uciok" && is("uciok")) {
                    break;
                }
                j += 1;
            }
            if let Some(j) = found {
                c.outs.extend(outs[next_out..=j].iter().cloned());
                t_free = t_free.max(outs[j].t);
                next_out = j + 1;
            }
        }
    }
    if n > 0 {
        let rest: Vec<Out> = outs[next_out..].to_vec();
        cmds[n - 1].outs.extend(rest);
    }
    // windows [start_i, start_{i+1})
    let starts: Vec<u64> = cmds.iter().map(|c| c.t).collect();
    let window_of = |t: u64| -> Option<usize> {
        let mut w = None;
        for (i, s) in starts.iter().enumerate() {
            if *s <= t {
                w = Some(i);
            }
        }
        w
    };
    let mut owner: std::collections::HashMap<usize, usize> = std::collections::HashMap::new();
    let mut probe_taken = vec![false; cmds.len()];
    for e in &res.events {
        // an injected delay is logged when it is over: it belongs to the window in which it began
        let t_ev = match &e.kind {
            EvKind::FaultFired(f) if !f.starts_with("spawn_delay") => {
                let us = f.find('+').and_then(|i| f[i + 1..].find("us").and_then(|j| f[i + 1..i + 1 + j].parse::<u64>().ok())).unwrap_or(0);
                e.t.saturating_sub(us * 1000)
            }
            _ => e.t,
        };
        let w = match window_of(t_ev) {
            Some(w) => w,
            None => continue,
        };
        match &e.kind {
            EvKind::Spawn(child) => {
                // the search thread of a go: spawned while that go is being served, and not a thread that reads stdin
                if !reader_tids.contains(child) && cmds[w].toks.first().map(|s| s == "go").unwrap_or(false) && cmds[w].search_tid.is_none() {
                    cmds[w].search_tid = Some(*child);
                    owner.insert(*child, w);
                }
            }
            EvKind::Send { ok, desc, .. } => {
                if let (Some(ci), false) = (owner.get(&e.tid), desc.starts_with("other:")) {
                    cmds[*ci].sends.push((e.t, desc.clone(), *ok));
                }
            }
            EvKind::RecvOk => cmds[w].recv_ok += 1,
            EvKind::RecvEmpty => cmds[w].recv_empty += 1,
            EvKind::RecvDisc => cmds[w].recv_disc += 1,
            EvKind::Probe(i) => {
                // the j-th probe of a kind belongs to the j-th command of that kind (the probe
                // of a go is taken after its bestmove, when the next command may have begun)
                let tag = res.probes[*i].tag.clone();
                if let Some(ci) = (0..cmds.len()).find(|ci| cmds[*ci].toks.first().map(|s| *s == tag).unwrap_or(false) && !probe_taken[*ci]) {
                    probe_taken[ci] = true;
                    cmds[ci].probes.push(*i);
                }
            }
            EvKind::FaultFired(f) => cmds[w].fired.push((if reader_tids.contains(&e.tid) { 0 } else { e.tid }, f.clone())),
            _ => {}
        }
    }
}

/// interleaving signature of one go: the order of {send #i, poll hit, poll miss (run-length
/// collapsed), deadline crossed, bestmove} events
pub fn interleaving_signature(res: &SimResult) -> u64 {
    let mut h = 0u64;
    let mut last = 0u8;
    for e in &res.events {
        let code: u8 = match &e.kind {
            EvKind::Send { ok: true, .. } => 1,
            EvKind::Send { ok: false, .. } => 2,
            EvKind::RecvOk => 3,
            EvKind::RecvEmpty => 4,
            EvKind::RecvDisc => 5,
            EvKind::Emit(l) if l.starts_with("bestmove") => 6,
            EvKind::Emit(l) if l.starts_with("info") => 7,
            EvKind::Spawn(_) => 8,
            EvKind::ThreadEnd(EndKind::Return) => 9,
            EvKind::ThreadEnd(EndKind::Panic(_)) => 10,
            EvKind::Note(n) if n == "receiver-drop" => 11,
            EvKind::Note(n) if n == "sender-drop" => 12,
            EvKind::ReadLine(_) => 13,
            _ => 0,
        };
        if code == 0 || (code == 4 && last == 4) {
            continue;
        }
        last = code;
        h = crate::rng::fnv(h, &[code]);
    }
    h
}

// ------------------------------------------------------------------------------------------
// session model

/// what a `position` line means, by the referee; None if it is not a well-formed position
/// command over a legal history
pub fn model_position(toks: &[String]) -> Option<(Pos, Vec<Mv>)> {
    if toks.len() < 2 || toks[0] != "position" {
        return None;
    }
    let (mut p, mut i) = if toks[1] == "startpos" {
        (Pos::start(), 2)
    } else if toks[1] == "fen" && toks.len() >= 8 {
        (Pos::from_fen(&toks[2..8].join(" ")).ok()?, 8)
    } else {
        return None;
    };
    if !p.is_legal_position() {
        return None;
    }
    let start = p.clone();
    let mut moves = vec![];
    if i < toks.len() {
        if toks[i] != "moves" {
            return None;
        }
        i += 1;
        while i < toks.len() {
            let m = Mv::parse(&toks[i])?;
            if !p.legal_moves().contains(&m) {
                return None;
            }
            p = p.apply(m);
            moves.push(m);
            i += 1;
        }
    }
    let _ = p;
    Some((start, moves))
}

/// the plan the engine itself computes for this go line and side (through the H5 wrapper)
pub fn engine_plan_ms(toks: &[String], white: bool) -> Option<u128> {
    let refs: Vec<&str> = toks.iter().map(|s| s.as_str()).collect();
    let side = if white { crate::board::PieceColor::White } else { crate::board::PieceColor::Black };
    std::panic::catch_unwind(|| crate::uci::verif_parse_go_command(&refs).calculate_time_slice(side)).ok()
}

pub fn is_bestmove_shape(line: &str) -> bool {
    let t: Vec<&str> = line.split(' ').collect();
    if t.len() != 2 || t[0] != "bestmove" {
        return false;
    }
    let m = t[1].as_bytes();
    if m.len() != 4 && m.len() != 5 {
        return false;
    }
    let ok_sq = |a: u8, b: u8| (b'a'..=b'h').contains(&a) && (b'1'..=b'8').contains(&b);
    ok_sq(m[0], m[1]) && ok_sq(m[2], m[3]) && (m.len() == 4 || b"qrbn".contains(&m[4]))
}

pub fn is_null_bestmove(line: &str) -> bool {
    let t: Vec<&str> = line.split_whitespace().collect();
    t.len() >= 2 && t[0] == "bestmove" && (t[1] == "0000" || t[1] == "(none)")
}

// ------------------------------------------------------------------------------------------
// generators

pub struct GoSpec {
    pub text: String,
}

/// clock settings: none; zero/negative; around the 100 ms margin; timed with plans <= ~50 ms
pub fn gen_go(rng: &mut Rng, timed_ok: bool, white_to_move: bool) -> String {
    gen_go_max(rng, timed_ok, white_to_move, 50)
}

/// `max_plan_ms`: the longest plan to generate (longer plans are affordable on a slow box,
/// where a slice holds few nodes)
pub fn gen_go_max(rng: &mut Rng, timed_ok: bool, white_to_move: bool, max_plan_ms: i64) -> String {
    let mut parts: Vec<String> = vec!["go".into()];
    let kind = rng.below(if timed_ok { 11 } else { 5 });
    let (my, other) = if white_to_move { ("w", "b") } else { ("b", "w") };
    match kind {
        0 => {}
        1 => {
            // zero / negative / tiny clocks: zero slice
            let v = *rng.pick(&[0i64, 1, 50, 99, 100, -1, -1000]);
            parts.push(format!("{}time", my));
            parts.push(v.to_string());
            parts.push(format!("{}time", other));
            parts.push(rng.range(-5, 100000).to_string());
        }
        2 => {
            parts.push("wtime".into());
            parts.push("100".into());
            parts.push("btime".into());
            parts.push("100".into());
            parts.push("movestogo".into());
            parts.push(rng.pick(&[1u32, 2, 40]).to_string());
        }
        4 => {
            // the largest clocks for which the time policy (C09: plan <= 80% of (clock - 100) /
            // moves-to-go, rounded to whole ms) still forces a zero slice:
            // 5 m > 8 (clock - 100). One step further and the request is searched.
            let mtg = *rng.pick(&[0u32, 0, 2, 40]);
            let m = if mtg == 0 { 30 } else { mtg } as i64;
            let top = 100 + (5 * m - 1) / 8;
            let clock = if rng.chance(1, 2) { top } else { rng.range(101, top) };
            parts.push(format!("{}time", my));
            parts.push(clock.to_string());
            parts.push(format!("{}time", other));
            parts.push(rng.range(0, 100000).to_string());
            if mtg != 0 {
                parts.push("movestogo".into());
                parts.push(mtg.to_string());
            }
        }
        3 => {
            // other side has plenty, mover has nothing
            parts.push(format!("{}time", other));
            parts.push("600000".into());
            parts.push(format!("{}inc", other));
            parts.push("5000".into());
        }
        _ => {
            // timed: plan = 0.8 * (clock - 100) / mtg, keep it within 1..=50 ms
            let mtg = *rng.pick(&[0u32, 0, 1, 2, 40]);
            let div = if mtg == 0 { 30 } else { mtg } as i64;
            let plan = if max_plan_ms > 50 && rng.chance(1, 3) { rng.range(51, max_plan_ms) } else { rng.range(1, 50) };
            let clock = 100 + (plan * div * 10 + 7) / 8;
            parts.push(format!("{}time", my));
            parts.push(clock.to_string());
            parts.push(format!("{}time", other));
            parts.push(rng.range(0, 900000).to_string());
            if rng.chance(1, 2) {
                parts.push(format!("{}inc", my));
                parts.push(rng.range(0, 40).to_string());
                parts.push(format!("{}inc", other));
                parts.push(rng.range(0, 5000).to_string());
            }
            if mtg != 0 {
                parts.push("movestogo".into());
                parts.push(mtg.to_string());
            }
        }
    }
    // UCI does not fix the order of the go parameters: one line in three has its
    // (keyword, value) pairs shuffled (movestogo first, increments before clocks ...)
    if parts.len() >= 5 && rng.chance(1, 3) {
        let mut pairs: Vec<(String, String)> = parts[1..].chunks(2).filter(|c| c.len() == 2).map(|c| (c[0].clone(), c[1].clone())).collect();
        if pairs.len() * 2 + 1 == parts.len() {
            for i in (1..pairs.len()).rev() {
                let j = rng.below(i as u64 + 1) as usize;
                pairs.swap(i, j);
            }
            parts.truncate(1);
            for (k, v) in pairs {
                parts.push(k);
                parts.push(v);
            }
        }
    }
    parts.join(" ")
}

pub fn position_line(start: &Pos, moves: &[Mv], rng: &mut Rng) -> String {
    let mut s = if start.fen() == r::START_FEN && rng.chance(2, 3) { "position startpos".to_string() } else { format!("position fen {}", start.fen()) };
    if !moves.is_empty() {
        s.push_str(" moves");
        for m in moves {
            s.push(' ');
            s.push_str(&m.uci());
        }
    }
    s
}

/// timing faults placed inside the go windows
pub fn gen_timing_faults(rng: &mut Rng, sc: &mut Scenario, n_go: usize, enabled: &[bool; 5]) {
    if n_go == 0 {
        return;
    }
    // swarm: each kind enabled per run by the caller
    let nf = rng.below(4);
    for _ in 0..nf {
        match rng.below(5) {
            0 if enabled[0] => sc.faults.push(Fault::StallSearch {
                search: rng.below(n_go as u64) as usize,
                node: *rng.pick(&[1u64, 2, 3, 10, 50, 200, 1000, 5000]),
                ns: *rng.pick(&[100_000u64, 1 * MS, 5 * MS, 30 * MS, 120 * MS]),
            }),
            1 if enabled[1] => sc.faults.push(Fault::OversleepIo { sleep: rng.below(60 * n_go as u64), ns: *rng.pick(&[500_000u64, 3 * MS, 20 * MS, 150 * MS]) }),
            2 if enabled[2] => sc.faults.push(Fault::SpawnDelay { spawn: rng.below(n_go as u64) as usize, ns: *rng.pick(&[200_000u64, 2 * MS, 20 * MS, 100 * MS]) }),
            4 if enabled[4] => sc.faults.push(Fault::StallBeforeSend {
                search: rng.below(n_go as u64) as usize,
                send: *rng.pick(&[0u64, 1, 1, 2, 3, 5, 8]),
                ns: *rng.pick(&[50_000u64, 1 * MS, 5 * MS, 40 * MS, 150 * MS]),
            }),
            3 if enabled[3] => sc.faults.push(Fault::PauseAll { go: rng.below(n_go as u64) as usize, offset: rng.below(60) * MS + rng.below(1000) * 1000, ns: *rng.pick(&[1 * MS, 10 * MS, 200 * MS]) }),
            _ => {}
        }
    }
}

pub fn gen_knobs(rng: &mut Rng, sc: &mut Scenario, faulty: bool) {
    sc.c_node_ns = *rng.pick(&[200u64, 1_000, 2_500, 5_000, 10_000, 25_000, 100_000, 200_000]);
    sc.jitter_seed = rng.next_u64();
    sc.ties = rng.next_u64();
    sc.gui_latency_ns = *rng.pick(&[1_000u64, 50_000, 1 * MS, 20 * MS]);
    sc.jitter_max_ns = if faulty { *rng.pick(&[0u64, 0, 100_000, 1 * MS, 3 * MS]) } else { 0 };
}

pub fn describe(sc: &Scenario) -> Value {
    let lines: Vec<String> = sc
        .steps
        .iter()
        .map(|s| match s {
            Step::Line { text, .. } => text.clone(),
            Step::Delay(d) => format!("<delay {}us>", d / 1000),
            Step::Close => "<close stdin>".into(),
        })
        .collect();
    json!({"c_node_ns": sc.c_node_ns, "jitter_max_ns": sc.jitter_max_ns, "faults": sc.faults.iter().map(|f| format!("{:?}", f)).collect::<Vec<_>>(), "script": lines})
}

/// engine board (probe) vs referee position, and key vs model key
pub fn probe_matches(res: &SimResult, idx: usize, p: &Pos, z: &crate::zobrist::ZobristHasher) -> Result<(), String> {
    let snap = &res.probes[idx];
    if let Some(d) = diff_board(&snap.board, p) {
        return Err(d);
    }
    let mk = model_key(p, z);
    if snap.board.zobrist_key != mk {
        return Err(format!("key {:016x} but from scratch {:016x}", snap.board.zobrist_key, mk));
    }
    Ok(())
}
