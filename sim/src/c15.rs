//! C15: FEN input is parsed totally and faithfully. Input-stream corruption on the one
//! stream the engine has: (a) straight to BoardState::from_fen under catch_unwind, (b) through
//! the real `position fen` handler, (c) a sample through the real binary's command line.
use crate::board::BoardState;
use crate::bridge::*;
use crate::draw_table::DrawTable;
use crate::referee::Pos;
use crate::report::{Acc, Violation};
use crate::rng::{fnv, Rng};
use crate::verif_seam as seam;
use crate::workload;
use crate::zobrist::ZobristHasher;
use serde_json::json;

const COUNTERS: &[(u32, u32)] = &[(0, 1), (1, 2), (49, 60), (99, 100), (100, 255), (0, 256), (7, 300), (3, 5949), (0, 1000), (149, 9999)];

const ALPHABET: &[&str] = &["p", "P", "k", "K", "q", "r", "n", "b", "x", "0", "1", "8", "9", " ", "  ", "-", "/", "w", "b", "e", "3", "6", "a", "h", "i", ":", "\t", "\u{00e9}", "\u{265e}", "+", "KQkq", "\u{0661}", "\n", "\r\n", "\r", "\u{feff}", "\u{00a0}"];

fn loader(fen: &str) -> Result<Result<BoardState, String>, String> {
    seam::install_panic_hook();
    let f = fen.to_string();
    match std::panic::catch_unwind(move || BoardState::from_fen(&f).map_err(|e| e.to_string())) {
        Ok(r) => Ok(r),
        Err(_) => Err(seam::last_panic().unwrap_or_else(|| "panic".into())),
    }
}

/// 1..=200 characters mixing 1-, 2-, 3- and 4-byte UTF-8, with a shifted alignment, so that
/// character boundaries fall on every byte offset of an over-long input
fn long_garbage(rng: &mut Rng) -> String {
    const POOL: &[&str] = &["x", "8", "/", " ", "p", "\u{00e9}", "\u{4e2d}", "\u{265e}", "\u{1f600}", "\u{0661}"];
    let n = 1 + rng.below(200) as usize;
    let mut s = String::new();
    for _ in 0..rng.below(4) {
        s.push('k');
    }
    let heavy = rng.chance(1, 2);
    for _ in 0..n {
        s.push_str(if heavy { *rng.pick(&POOL[5..9]) } else { *rng.pick(POOL) });
    }
    s
}

fn mutate(rng: &mut Rng, fen: &str) -> (String, &'static str) {
    let chars: Vec<char> = fen.chars().collect();
    let fields: Vec<&str> = fen.split(' ').collect();
    if rng.chance(1, 8) {
        // over-long input: garbage appended, prepended or spliced in
        let g = long_garbage(rng);
        return match rng.below(3) {
            0 => (format!("{}{}", fen, g), "over-long"),
            1 => (format!("{}{}", g, fen), "over-long"),
            _ => {
                let i = rng.below(chars.len() as u64 + 1) as usize;
                let mut c = chars.clone();
                let ins: Vec<char> = g.chars().collect();
                c.splice(i..i, ins);
                (c.into_iter().collect(), "over-long")
            }
        };
    }
    match rng.below(12) {
        0 => {
            let cut = rng.below(chars.len() as u64 + 1) as usize;
            (chars[..cut].iter().collect(), "truncate")
        }
        1 | 2 => {
            let i = rng.below(chars.len() as u64) as usize;
            let mut c = chars.clone();
            let rep: Vec<char> = rng.pick(ALPHABET).chars().collect();
            c.splice(i..i + 1, rep);
            (c.into_iter().collect(), "substitute")
        }
        3 => {
            let i = rng.below(chars.len() as u64 + 1) as usize;
            let mut c = chars.clone();
            let ins: Vec<char> = rng.pick(ALPHABET).chars().collect();
            c.splice(i..i, ins);
            (c.into_iter().collect(), "insert")
        }
        4 => {
            let i = rng.below(chars.len() as u64) as usize;
            let mut c = chars.clone();
            c.remove(i);
            (c.into_iter().collect(), "delete")
        }
        5 => {
            let i = rng.below(fields.len() as u64) as usize;
            let mut f = fields.clone();
            f.remove(i);
            (f.join(" "), "drop-field")
        }
        6 => {
            let i = rng.below(fields.len() as u64) as usize;
            let mut f = fields.clone();
            f.insert(i, fields[i]);
            (f.join(" "), "duplicate-field")
        }
        7 => {
            let i = rng.below(fields.len() as u64) as usize;
            let j = rng.below(fields.len() as u64) as usize;
            let mut f = fields.clone();
            f.swap(i, j);
            (f.join(" "), "swap-fields")
        }
        8 => {
            // the en-passant field, where the loader hands over to the square parser
            let mut f: Vec<String> = fields.iter().map(|s| s.to_string()).collect();
            if f.len() == 6 {
                f[3] = rng.pick(&["ee", "e", "e9", "e0", "z3", "a:", "\u{00e9}", "\u{00e9}3", "3e", "--", "e33", "E3", "e3 ", "\u{0661}\u{0662}", "a\u{00e9}", "h8", "a1", "e4"]).to_string();
            }
            (f.join(" "), "ep-field")
        }
        9 => {
            let mut f: Vec<String> = fields.iter().map(|s| s.to_string()).collect();
            if f.len() == 6 {
                let which = 4 + rng.below(2) as usize;
                f[which] = rng.pick(&["256", "-1", "99999999999999999999", "1e3", "0x10", "+5", "", "١", "4294967296", "65536", "1.0", " 1"]).to_string();
            }
            (f.join(" "), "counter-field")
        }
        10 => {
            let mut f: Vec<String> = fields.iter().map(|s| s.to_string()).collect();
            if f.len() == 6 {
                f[2] = rng.pick(&["KQkqKQkq", "kqKQ", "KQkq-", "", "AHah", "Kk", "-", "KQ kq"]).to_string();
            }
            (f.join(" "), "castling-field")
        }
        _ => {
            // placement structure: rows too long / too many rows / digits summing wrong
            let mut f: Vec<String> = fields.iter().map(|s| s.to_string()).collect();
            if !f.is_empty() {
                let rows: Vec<&str> = fields[0].split('/').collect();
                let mut rws: Vec<String> = rows.iter().map(|s| s.to_string()).collect();
                match rng.below(5) {
                    0 => {
                        // one to eight surplus rows, each a complete row (the loader must
                        // stay inside its 12x12 array however many rows it is handed)
                        for _ in 0..1 + rng.below(8) {
                            rws.push(rng.pick(&["8", "pppppppp", "4p3", "PPPPPPPP", "1n6", "8"]).to_string());
                        }
                    }
                    1 => {
                        rws.pop();
                    }
                    2 => {
                        let i = rng.below(rws.len() as u64) as usize;
                        rws[i].push_str(*rng.pick(&["1", "9", "p", "8", "PPPPPPPPP"]));
                    }
                    3 => {
                        let i = rng.below(rws.len() as u64) as usize;
                        rws[i] = rng.pick(&["", "9", "44", "71", "18", "0p7", "pppppppp1", "p0p6", "80"]).to_string();
                    }
                    _ => {
                        let i = rng.below(rws.len() as u64) as usize;
                        rws.insert(i, String::new());
                    }
                }
                f[0] = rws.join("/");
            }
            (f.join(" "), "placement-structure")
        }
    }
}

/// judge one string against the loader; returns the loader's verdict for the CLI stage
pub fn judge_string(s: &str, origin: &str, acc: &mut Acc, run: u64, z: &ZobristHasher) -> Option<bool> {
    acc.evals += 1;
    let scen = json!({"family": "C15", "fen": s, "origin": origin});
    // "every valid counter value": the longest possible game has 5949 moves and the halfmove
    // clock cannot pass 150 under the 75-move rule; anything up to 10 000 / 100 000 is
    // required to load, beyond that the loader's answer is not judged
    let strict = Pos::from_fen(s).ok().filter(|p| p.is_legal_position() && p.halfmove <= 10_000 && p.fullmove <= 100_000);
    match loader(s) {
        Err(p) => {
            let site = if p.contains("board.rs") { "loader" } else { "elsewhere" };
            acc.violate(Violation { prop: "C15".into(), sig: format!("C15/loader-panic/{}/{}", site, origin), detail: format!("from_fen({:?}) panicked: {}", s, p), scenario: scen, run });
            None
        }
        Ok(Err(e)) => {
            if strict.is_some() {
                let cls = if e.contains("half move") || e.contains("full move") { "counter" } else { "other" };
                acc.violate(Violation { prop: "C15".into(), sig: format!("C15/legal-fen-rejected/{}", cls), detail: format!("well-formed FEN of a legal position rejected: {:?}: {}", s, e), scenario: scen, run });
            }
            Some(false)
        }
        Ok(Ok(b)) => {
            if let Some(p) = &strict {
                if let Some(d) = diff_board(&b, p) {
                    acc.violate(Violation { prop: "C15".into(), sig: "C15/loaded-position-differs".into(), detail: format!("{:?}: {}", s, d), scenario: scen, run });
                } else if b.zobrist_key != model_key(p, z) {
                    acc.violate(Violation { prop: "C15".into(), sig: "C15/loaded-key-differs".into(), detail: format!("{:?}: key {:016x} from scratch {:016x}", s, b.zobrist_key, model_key(p, z)), scenario: scen, run });
                } else if b.last_move.is_some() || b.pawn_promotion.is_some() {
                    acc.violate(Violation { prop: "C15".into(), sig: "C15/loaded-descriptor-not-empty".into(), detail: format!("{:?}", s), scenario: scen, run });
                }
            }
            Some(true)
        }
    }
}

/// (b) the same string through the real `position fen` handler: the deliberate
/// panic!("Got bad fen string...") after an Err is the documented behaviour; a panic that
/// originates in board.rs is not.
fn judge_position_cmd(s: &str, acc: &mut Acc, run: u64, z: &ZobristHasher) {
    let line = format!("position fen {}", s);
    let cleaned = crate::utils::clean_input(&line);
    let toks: Vec<&str> = cleaned.split(' ').collect();
    if toks.len() < 8 {
        return; // the handler indexes commands[7]: malformed command, outside this property
    }
    seam::install_panic_hook();
    let mut dt = DrawTable::new();
    let r = std::panic::catch_unwind(std::panic::AssertUnwindSafe(|| crate::uci::verif_play_out_position(&toks, z, &mut dt)));
    acc.count("c15_position_commands");
    if r.is_err() {
        let p = seam::last_panic().unwrap_or_default();
        if p.contains("board.rs") {
            acc.violate(Violation { prop: "C15".into(), sig: "C15/loader-panic/loader/position-command".into(), detail: format!("{:?} panicked inside the loader: {}", line, p), scenario: json!({"family": "C15", "fen": s, "origin": "position-command"}), run });
        }
    }
}

pub fn run(seed: u64, runno: u64) -> (Acc, Vec<(String, bool, bool)>) {
    let mut rng = Rng::new(crate::rng::mix(seed, "C15", runno));
    let mut acc = Acc::new();
    let z = ZobristHasher::create_zobrist_hasher();
    let mut cli: Vec<(String, bool, bool)> = vec![];
    // (i) faithful loading of legal positions with every kind of counter
    let mut p = workload::gen_position(&mut rng);
    let plies_played = 2 * (p.fullmove as u64 - 1) + if p.white_to_move { 0 } else { 1 };
    if p.halfmove as u64 > plies_played || rng.chance(2, 3) {
        // the catalogue of counter values (each pair is possible in a real game) ...
        let (h, f) = *rng.pick(COUNTERS);
        p.halfmove = h;
        p.fullmove = f;
    } else {
        // ... or the true counters of the generated game (e.g. "1 1" with Black to move
        // after 1.Nf3: the halfmove clock equals the plies played)
        acc.count("c15_legal_fens_with_true_game_counters");
    }
    let fen = p.fen();
    let verdict = judge_string(&fen, "legal-fen", &mut acc, runno, &z);
    let (h, f) = (p.halfmove, p.fullmove);
    acc.nontrivial.insert(fnv(p.canon_hash(), &f.to_le_bytes()));
    if f > 255 || h > 99 {
        acc.count("c15_legal_fens_with_counter_beyond_255_or_99");
    }
    if runno % 40 == 0 {
        cli.push((fen.clone(), true, verdict.unwrap_or(false)));
    }
    if runno < 2 {
        acc.sample(json!({"legal_fen": fen}));
    }
    // (ii) corrupted variants
    for i in 0..24 {
        let (m, kind) = mutate(&mut rng, &fen);
        if m.contains('\0') {
            continue;
        }
        acc.count(&format!("fault_fired:fen_corrupt/{}", kind));
        let v = judge_string(&m, kind, &mut acc, runno, &z);
        judge_position_cmd(&m, &mut acc, runno, &z);
        acc.nontrivial.insert(fnv(0, m.as_bytes()));
        if (runno + i) % 97 == 0 {
            let legal = Pos::from_fen(&m).ok().map(|p| p.is_legal_position() && p.halfmove <= 10_000 && p.fullmove <= 100_000).unwrap_or(false);
            cli.push((m.clone(), legal, v.unwrap_or(false)));
        }
        if runno < 2 && i < 3 {
            acc.sample(json!({"corrupted": m, "kind": kind}));
        }
    }
    (acc, cli)
}

/// every truncation point and every single-byte deletion of one FEN (systematic part)
pub fn systematic(acc: &mut Acc, z: &ZobristHasher) {
    for fen in ["rnbqkbnr/pppppppp/8/8/4P3/8/PPPP1PPP/RNBQKBNR b KQkq e3 0 1", "r3k2r/p1ppqpb1/bn2pnp1/3PN3/1p2P3/2N2Q1p/PPPBBPPP/R3K2R w KQkq - 12 345"] {
        let chars: Vec<char> = fen.chars().collect();
        for cut in 0..=chars.len() {
            let s: String = chars[..cut].iter().collect();
            judge_string(&s, "truncate", acc, 0, z);
            judge_position_cmd(&s, acc, 0, z);
        }
        for i in 0..chars.len() {
            let mut c = chars.clone();
            c.remove(i);
            let s: String = c.into_iter().collect();
            judge_string(&s, "delete", acc, 0, z);
            for a in ALPHABET {
                let mut c = chars.clone();
                let rep: Vec<char> = a.chars().collect();
                c.splice(i..i + 1, rep);
                let s: String = c.into_iter().collect();
                judge_string(&s, "substitute", acc, 0, z);
                judge_position_cmd(&s, acc, 0, z);
            }
        }
        // surplus complete rows, 1 to 10 of them
        let f: Vec<&str> = fen.split(' ').collect();
        for extra in 1..=10 {
            let mut placement = f[0].to_string();
            for _ in 0..extra {
                placement.push_str("/8");
            }
            let s = format!("{} {}", placement, f[1..].join(" "));
            judge_string(&s, "placement-structure", acc, 0, z);
            judge_position_cmd(&s, acc, 0, z);
        }
        acc.count("c15_fens_with_every_truncation_deletion_substitution");
    }
}

/// (c) the real binary: `walleye --fen=<s> -T -d 1` prints a message and exits 0 on every
/// string the loader rejects, and exits 0 on every legal FEN
pub fn cli_stage(bin: &str, strings: &[(String, bool, bool)], acc: &mut Acc) {
    for (s, legal, accepted) in strings {
        if *accepted && !*legal {
            // a well-formed FEN of an illegal position that the loader accepts: what the
            // test bench then does with it (no king, ...) is outside this property
            acc.count("c15_cli_skipped_accepted_illegal_position");
            continue;
        }
        let out = std::process::Command::new(bin).arg(format!("--fen={}", s)).arg("-T").arg("-d").arg("1").output();
        acc.evals += 1;
        acc.count("c15_real_binary_invocations");
        match out {
            Err(e) => {
                acc.count(&format!("c15_cli_spawn_error:{}", e.kind()));
            }
            Ok(o) => {
                let code = o.status.code();
                let stderr = String::from_utf8_lossy(&o.stderr).to_string();
                let stdout = String::from_utf8_lossy(&o.stdout).to_string();
                let scen = json!({"family": "C15", "fen": s, "origin": "cli"});
                if code != Some(0) || stderr.contains("panicked") {
                    acc.violate(Violation {
                        prop: "C15".into(),
                        sig: format!("C15/cli/{}", if stderr.contains("panicked") { "panic" } else { "nonzero-exit" }),
                        detail: format!("walleye --fen={:?} -T -d 1 exited with {:?}; stderr: {}", s, code, stderr.lines().next().unwrap_or("")),
                        scenario: scen,
                        run: 0,
                    });
                } else if *legal && !stdout.contains("Searched to a depth") {
                    acc.violate(Violation { prop: "C15".into(), sig: "C15/cli/legal-fen-not-run".into(), detail: format!("legal FEN {:?} was not benchmarked: {}", s, stdout.lines().next().unwrap_or("")), scenario: scen, run: 0 });
                } else if !*accepted && stdout.trim().is_empty() {
                    acc.violate(Violation { prop: "C15".into(), sig: "C15/cli/silent-rejection".into(), detail: format!("{:?} rejected without a message", s), scenario: scen, run: 0 });
                }
            }
        }
    }
}

/// shrink a failing string (loader-level signatures only): remove chunks of characters while
/// the same signature persists
pub fn minimise(v: &Violation, z: &ZobristHasher) -> Violation {
    if v.scenario["origin"] == "cli" || v.scenario["origin"] == "position-command" {
        return v.clone();
    }
    let mut best: Vec<char> = v.scenario["fen"].as_str().unwrap_or("").chars().collect();
    let origin = v.scenario["origin"].as_str().unwrap_or("replay").to_string();
    let still = |cs: &[char]| -> bool {
        let s: String = cs.iter().collect();
        let mut acc = Acc::new();
        judge_string(&s, &origin, &mut acc, 0, z);
        acc.violations.iter().any(|x| x.sig == v.sig)
    };
    if !still(&best) {
        return v.clone();
    }
    let mut chunk = best.len() / 2;
    while chunk >= 1 {
        let mut i = 0;
        while i + chunk <= best.len() {
            let mut t = best.clone();
            t.drain(i..i + chunk);
            if still(&t) {
                best = t;
            } else {
                i += chunk;
            }
        }
        chunk /= 2;
    }
    let s: String = best.iter().collect();
    let mut acc = Acc::new();
    judge_string(&s, &origin, &mut acc, v.run, z);
    match acc.violations.into_iter().find(|x| x.sig == v.sig) {
        Some(mut x) => {
            x.run = v.run;
            x
        }
        None => v.clone(),
    }
}
