//! S-C: state-machine walks (no threads, no clock). Histories are driven step by step
//! through the three producers of positions - the FEN loader, the text-move applier and
//! chains of generator successors - next to the referee, with the invariants of C01, C02,
//! C04, C05, C13 and C10(i) checked after every step.
use crate::board::BoardState;
use crate::bridge::*;
use crate::draw_table::DrawTable;
use crate::move_generation::{generate_moves, MoveGenerationMode};
use crate::referee::{self as r, Mv, Pos};
use crate::report::{Acc, Violation};
use crate::rng::{fnv, Rng};
use crate::uci::{verif_make_move, verif_play_out_position};
use crate::workload::{self, Game};
use crate::zobrist::ZobristHasher;
use serde_json::{json, Value};
use std::collections::HashMap;

#[derive(Clone, Copy, Default)]
pub struct Judge {
    pub c01: bool,
    pub c02: bool,
    pub c04: bool,
    pub c05: bool,
    pub c10: bool,
    pub c13: bool,
}

impl Judge {
    pub fn only(id: &str) -> Judge {
        let mut j = Judge::default();
        match id {
            "C01" => j.c01 = true,
            "C02" => j.c02 = true,
            "C04" => j.c04 = true,
            "C05" => j.c05 = true,
            "C10" => j.c10 = true,
            "C13" => j.c13 = true,
            _ => {}
        }
        j
    }
}

pub fn move_class(p: &Pos, m: Mv) -> &'static str {
    if p.is_castling(m) {
        "castling"
    } else if p.is_ep_capture(m) {
        "ep"
    } else if m.promo != 0 {
        if p.is_capture(m) {
            "capture-promotion"
        } else {
            "promotion"
        }
    } else if r::kind(p.sq[m.from as usize]) == r::PAWN && (r::rank_of(m.to) - r::rank_of(m.from)).abs() == 2 {
        "double-step"
    } else if r::kind(p.sq[m.from as usize]) == r::KING {
        if p.is_capture(m) {
            "king-capture"
        } else {
            "king"
        }
    } else if p.is_capture(m) {
        "capture"
    } else {
        "quiet"
    }
}

fn is_special(p: &Pos, m: Mv) -> bool {
    !matches!(move_class(p, m), "quiet" | "capture" | "king" | "king-capture") || [0u8, 7, 56, 63].contains(&m.from) || [0u8, 7, 56, 63].contains(&m.to)
}

/// C01's non-trivial rule: castling right present, ep target set, side to move in check, a
/// pawn one step from promotion, or a pinned piece (approximated: a legal-move count smaller
/// than the pseudo-legal count is not available here, so "pinned" is folded into "in check or
/// some pseudo move rejected" by the caller).
pub fn c01_nontrivial(p: &Pos) -> bool {
    if p.castle.iter().any(|c| *c) || p.ep.is_some() || p.in_check(p.white_to_move) {
        return true;
    }
    for s in 0..64u8 {
        let pc = p.sq[s as usize];
        if pc == r::PAWN && r::rank_of(s) == 6 && p.white_to_move {
            return true;
        }
        if pc == (r::PAWN | r::BLACK) && r::rank_of(s) == 1 && !p.white_to_move {
            return true;
        }
    }
    false
}

pub struct Ctx<'a> {
    pub z: &'a ZobristHasher,
    pub judge: Judge,
    pub acc: &'a mut Acc,
    pub game: &'a Game,
    pub run: u64,
    /// canonical position -> engine key seen (route independence)
    pub keys: HashMap<u64, u64>,
    pub mode: &'static str,
    /// replay / minimisation: take every optional branch (no sampling)
    pub full: bool,
    /// successors by a legal move whose fields differ from the rules (filled by check_generation)
    pub unsound: Vec<(Mv, BoardState)>,
}

impl<'a> Ctx<'a> {
    fn maybe(&self, rng: &mut Rng, num: u64, den: u64) -> bool {
        let c = rng.chance(num, den);
        self.full || c
    }
    fn scenario(&self, ply: usize, path: &[Mv]) -> Value {
        json!({
            "family": "SC",
            "mode": self.mode,
            "start_fen": self.game.start.fen(),
            "moves": self.game.moves.iter().take(ply).map(|m| m.uci()).collect::<Vec<_>>(),
            "then": path.iter().map(|m| m.uci()).collect::<Vec<_>>(),
        })
    }
    fn violate(&mut self, prop: &str, sig: String, detail: String, ply: usize, path: &[Mv]) {
        let sc = self.scenario(ply, path);
        self.acc.violate(Violation { prop: prop.to_string(), sig, detail, scenario: sc, run: self.run });
    }
}

/// Compare one generation (all moves or captures only) of engine board `b` with the referee
/// position `p`. Returns the (descriptor, successor) pairs that are sound (legal move,
/// correct position) so that callers can continue chains from them.
#[allow(clippy::too_many_arguments)]
pub fn check_generation<'b>(
    cx: &mut Ctx,
    b: &BoardState,
    p: &Pos,
    succ: &'b [BoardState],
    captures_only: bool,
    ply: usize,
    path: &[Mv],
) -> Vec<(Mv, &'b BoardState)> {
    let want: Vec<Mv> = if captures_only { p.legal_captures() } else { p.legal_moves() };
    let (prop_set, prop_succ, tag) = if captures_only { ("C13", "C13", "capture-only") } else { ("C01", "C02", "all-moves") };
    let judge_set = if captures_only { cx.judge.c13 } else { cx.judge.c01 };
    let judge_succ = if captures_only { cx.judge.c13 } else { cx.judge.c02 };
    let mut seen: Vec<Mv> = Vec::with_capacity(succ.len());
    let mut sound = Vec::with_capacity(succ.len());
    for s in succ {
        let d = descriptor(s);
        let d = match d {
            Some(d) => d,
            None => {
                if judge_set {
                    cx.violate(prop_set, format!("{}/{}/no-descriptor", prop_set, tag), format!("successor of {} carries no move descriptor", p.fen()), ply, path);
                }
                continue;
            }
        };
        if seen.contains(&d) {
            if judge_set {
                cx.violate(prop_set, format!("{}/{}/duplicate/{}", prop_set, tag, move_class(p, d)), format!("move {} generated twice in {}", d.uci(), p.fen()), ply, path);
            }
            continue;
        }
        seen.push(d);
        if !want.contains(&d) {
            // the descriptor names no legal move (of this mode). Is it a right position with a wrong name?
            let plain = Mv { from: d.from, to: d.to, promo: 0 };
            let all = p.legal_moves();
            // (any legal move whose resulting position this successor is - the descriptor may
            // differ in the promotion letter, in the destination, or in the origin)
            let renamed = all
                .iter()
                .find(|m| m.from == d.from && m.to == d.to && diff_board(s, &p.apply(**m)).is_none())
                .or_else(|| all.iter().find(|m| diff_board(s, &p.apply(**m)).is_none()));
            if let Some(m) = renamed {
                if judge_succ || judge_set {
                    let prop = if judge_succ { prop_succ } else { prop_set };
                    cx.violate(
                        prop,
                        format!("{}/{}/descriptor/{}-printed-as-{}", prop, tag, move_class(p, *m), if d.promo != 0 && m.promo == 0 { "promotion" } else if d.from != m.from || d.to != m.to { "another-move" } else { "plain" }),
                        format!("successor is the position after {} but its descriptor reads {} (in {})", m.uci(), d.uci(), p.fen()),
                        ply,
                        path,
                    );
                }
            } else if d.promo == 0 && all.iter().any(|m| m.from == d.from && m.to == d.to && m.promo != 0) {
                if judge_succ && !captures_only {
                    // (C02: this successor is the position after no move at all)
                    cx.violate(
                        prop_succ,
                        format!("{}/{}/successor/unpromoted-pawn-on-last-rank", prop_succ, tag),
                        format!("{} produced a successor for {} in which the pawn stands on the last rank unpromoted (in {})", tag, d.uci(), p.fen()),
                        ply,
                        path,
                    );
                }
                if judge_set {
                    cx.violate(
                        prop_set,
                        format!("{}/{}/unpromoted-pawn-on-last-rank", prop_set, tag),
                        format!("{} produced {} without promoting (a pawn is left on the last rank) in {}", tag, d.uci(), p.fen()),
                        ply,
                        path,
                    );
                }
            } else if judge_set {
                let cls = if p.sq[d.from as usize] != 0 { move_class(p, plain) } else { "from-empty" };
                let legal_full = all.contains(&d);
                let why = if captures_only && legal_full { "not-a-capture" } else { "illegal" };
                cx.violate(
                    prop_set,
                    format!("{}/{}/extra/{}/{}", prop_set, tag, why, cls),
                    format!("{} generated move {} which is {} in {}", tag, d.uci(), why, p.fen()),
                    ply,
                    path,
                );
            }
            continue;
        }
        // legal: is the successor the right position?
        let q = p.apply(d);
        match diff_board(s, &q) {
            Some(diff) => {
                if judge_succ {
                    cx.violate(
                        prop_succ,
                        format!("{}/{}/successor/{}/{}", prop_succ, tag, move_class(p, d), diff_class(&diff)),
                        format!("successor of {} by {}: {}", p.fen(), d.uci(), diff),
                        ply,
                        path,
                    );
                }
                if !captures_only && path.len() < 3 && cx.unsound.len() < 8 {
                    cx.unsound.push((d, s.clone()));
                }
            }
            None => {
                if cx.judge.c05 && b.zobrist_key == model_key(p, cx.z) {
                    let mk = model_key(&q, cx.z);
                    if s.zobrist_key != mk {
                        cx.violate(
                            "C05",
                            format!("C05/generator-{}/key-mismatch/{}{}", tag, move_class(p, d), if p.ep.is_some() { "/ep-pending" } else { "" }),
                            format!("key after {} from {} is {:016x}, from scratch {:016x}", d.uci(), p.fen(), s.zobrist_key, mk),
                            ply,
                            path,
                        );
                    }
                }
                sound.push((d, s));
            }
        }
    }
    if judge_set {
        for m in &want {
            if !seen.contains(m) {
                // a move whose position was produced under another name is already reported
                let produced_under_other_name = succ.iter().any(|s| descriptor(s).map(|d| d != *m).unwrap_or(false) && diff_board(s, &p.apply(*m)).is_none());
                if produced_under_other_name {
                    continue;
                }
                // promotions whose from/to was produced unpromoted are reported there
                if m.promo != 0 && seen.contains(&Mv { from: m.from, to: m.to, promo: 0 }) {
                    continue;
                }
                cx.violate(
                    prop_set,
                    format!("{}/{}/missing/{}", prop_set, tag, move_class(p, *m)),
                    format!("{} did not generate legal move {} in {}", tag, m.uci(), p.fen()),
                    ply,
                    path,
                );
            }
        }
    }
    sound
}

fn diff_class(d: &str) -> &'static str {
    if d.starts_with("square") {
        "placement"
    } else if d.starts_with("side") {
        "side"
    } else if d.starts_with("castling") {
        "rights"
    } else if d.starts_with("ep target") {
        "ep-target"
    } else if d.contains("king cache") {
        "king-cache"
    } else {
        "other"
    }
}

/// follow capture-only generations recursively from the engine's own successors
#[allow(clippy::too_many_arguments)]
fn capture_chain(cx: &mut Ctx, b: &BoardState, p: &Pos, depth: usize, budget: &mut u32, ply: usize, path: &mut Vec<Mv>, first_had_ep: bool, saw_last_rank: bool) {
    if *budget == 0 {
        return;
    }
    *budget -= 1;
    let caps = generate_moves(b, MoveGenerationMode::CapturesOnly, cx.z);
    cx.acc.evals += 1;
    cx.acc.distinct.insert(p.canon_hash());
    if path.len() >= 2 && (first_had_ep || saw_last_rank) {
        cx.acc.nontrivial.insert(fnv(p.canon_hash(), &[path.len() as u8]));
        cx.acc.count("c13_chain_len>=2_with_ep_or_last_rank");
    }
    if path.len() >= 2 {
        cx.acc.count("c13_chain_nodes_depth>=2");
    }
    let sound: Vec<(Mv, BoardState)> = check_generation(cx, b, p, &caps, true, ply, path).into_iter().map(|(m, s)| (m, s.clone())).collect();
    if depth == 0 {
        return;
    }
    for (m, s) in sound {
        let q = p.apply(m);
        let lr = saw_last_rank || r::rank_of(m.to) == 0 || r::rank_of(m.to) == 7;
        path.push(m);
        capture_chain(cx, &s, &q, depth - 1, budget, ply, path, first_had_ep, lr);
        path.pop();
    }
    // capture-only successors that are *not* sound still matter one ply later only through
    // the violation already reported; the chain stops there.
}

/// One game: generator chain + (optionally) text applier side by side with the referee.
/// C01 below a wrong successor: generate from the engine's own (unsound) board `s`, judge the
/// move set against the real position `q`, and keep following successors that are still unsound.
fn follow_unsound(cx: &mut Ctx, s: &BoardState, q: &Pos, ply: usize, path: &mut Vec<Mv>, budget: &mut u32) {
    if *budget == 0 {
        return;
    }
    *budget -= 1;
    cx.acc.count("c01_generations_from_unsound_own_successor");
    let z2 = cx.z;
    let r = std::panic::catch_unwind(std::panic::AssertUnwindSafe(|| generate_moves(s, MoveGenerationMode::AllMoves, z2)));
    match r {
        Ok(s2) => {
            let before = cx.acc.violations.len();
            cx.unsound.clear();
            check_generation(cx, s, q, &s2, false, ply, path);
            // mark the class: these only arise below a wrong successor
            for v in cx.acc.violations.iter_mut().skip(before) {
                if !v.sig.ends_with("/from-own-successor") {
                    v.sig.push_str("/from-own-successor");
                }
            }
            let next = std::mem::take(&mut cx.unsound);
            if path.len() < 3 {
                for (m2, s3) in &next {
                    let q2 = q.apply(*m2);
                    path.push(*m2);
                    follow_unsound(cx, s3, &q2, ply, path, budget);
                    path.pop();
                }
            }
        }
        Err(_) => cx.violate("C01", "C01/all-moves/panic/from-own-successor".into(), format!("generating from the engine's own successor of {} by {} panicked", q.fen(), path.last().map(|m| m.uci()).unwrap_or_default()), ply, path),
    }
}

pub fn walk_game(cx: &mut Ctx, rng: &mut Rng) {
    let game = cx.game;
    let z = cx.z;
    let start_fen = game.start.fen();
    let mut b = match BoardState::from_fen(&start_fen) {
        Ok(b) => b,
        Err(e) => {
            // the loader rejected a legal FEN: C15's business; here it only ends the walk
            cx.acc.count(&format!("loader_rejected:{}", e));
            return;
        }
    };
    let mut p = game.start.clone();
    // text applier runs next to it (C04 / C05 / C10)
    let fen_fields: Vec<String> = start_fen.split(' ').map(|s| s.to_string()).collect();
    let mut cmd: Vec<String> = vec!["position".into(), "fen".into()];
    cmd.extend(fen_fields.iter().cloned());
    let use_startpos = start_fen == r::START_FEN && rng.chance(1, 2);
    if use_startpos {
        cmd = vec!["position".into(), "startpos".into()];
    }
    let run_applier = cx.judge.c04 || cx.judge.c05 || cx.judge.c10;
    let mut dt = DrawTable::new();
    let mut bt: Option<BoardState> = if run_applier {
        let refs: Vec<&str> = cmd.iter().map(|s| s.as_str()).collect();
        Some(verif_play_out_position(&refs, z, &mut dt))
    } else {
        None
    };
    let mut prev_special = false;
    for ply in 0..=game.moves.len() {
        // ---- invariants on the position reached by the generator chain
        cx.acc.evals += 1;
        let ch = p.canon_hash();
        cx.acc.distinct.insert(ch);
        if let Some(d) = diff_board(&b, &p) {
            // the chain board itself is wrong: already reported when it was produced
            cx.acc.count("chain_board_diverged");
            let _ = d;
            b = BoardState::from_fen(&p.fen()).unwrap();
        }
        let chain_key = b.zobrist_key;
        let chain_key_ok = chain_key == model_key(&p, z);
        if let (Some(bt_ref), true) = (&bt, cx.judge.c04) {
            // "identical to following the engine's own generated successors": hash included
            if diff_board(bt_ref, &p).is_none() && bt_ref.zobrist_key != b.zobrist_key {
                let last = if ply > 0 { move_class(&game.positions_at(ply - 1), game.moves[ply - 1]) } else { "start" };
                let pending = if ply > 0 && game.positions_at(ply - 1).ep.is_some() { "/ep-pending" } else { "" };
                cx.violate("C04", format!("C04/applier-vs-generator/key/{}{}", last, pending), format!("same position {}, applier key {:016x}, generator-chain key {:016x}", p.fen(), bt_ref.zobrist_key, b.zobrist_key), ply, &[]);
            }
        }
        if !chain_key_ok {
            // reported at production time with its class; re-synchronise so that later
            // steps are judged as first divergences too
            cx.acc.count("chain_key_resynced");
            let keep = (b.last_move, b.pawn_promotion, b.order_heuristic);
            if let Ok(mut nb) = BoardState::from_fen(&p.fen()) {
                nb.last_move = keep.0;
                nb.pawn_promotion = keep.1;
                nb.order_heuristic = keep.2;
                b = nb;
            }
        }
        if cx.judge.c05 {
            match cx.keys.get(&ch) {
                Some(k) if *k != chain_key => {
                    cx.violate("C05", "C05/route-dependence".into(), format!("position {} reached with keys {:016x} and {:016x}", p.canon(), k, chain_key), ply, &[]);
                }
                Some(_) => cx.acc.count("c05_transposition_pairs"),
                None => {
                    cx.keys.insert(ch, chain_key);
                }
            }
        }
        cx.unsound.clear();
        let succ = generate_moves(&b, MoveGenerationMode::AllMoves, z);
        let sound: Vec<(Mv, BoardState)> = check_generation(cx, &b, &p, &succ, false, ply, &[]).into_iter().map(|(m, s)| (m, s.clone())).collect();
        if cx.judge.c01 && c01_nontrivial(&p) {
            cx.acc.nontrivial.insert(ch);
        }
        // C01 quantifies over positions reached by legal move sequences: the engine holds such
        // a position as its own successor board. Where that board differs from the rules
        // (C02's business) the moves generated FROM it must still be the legal moves of the
        // real position.
        let unsound = std::mem::take(&mut cx.unsound);
        if cx.judge.c01 {
            // (a wrong field may only matter some plies later - e.g. an en-passant target that
            // survives two promotions - so the engine's own chain is followed while it stays
            // unsound, three plies at most)
            let mut budget = 48u32;
            for (m, s) in &unsound {
                let q = p.apply(*m);
                follow_unsound(cx, s, &q, ply, &mut vec![*m], &mut budget);
            }
        }
        if cx.judge.c01 || cx.judge.c02 || cx.judge.c05 {
            // template reach probes
            if p.castle.iter().any(|c| *c) {
                let (wk, bk) = (p.king_sq(true).unwrap(), p.king_sq(false).unwrap());
                let (own, enemy) = if p.white_to_move { (wk, bk) } else { (bk, wk) };
                if (r::rank_of(own) - r::rank_of(enemy)).abs() <= 2 && (r::file_of(enemy) >= 5 || r::file_of(enemy) <= 3) {
                    cx.acc.count("probe_castling_right_with_enemy_king_within_two_ranks");
                }
            }
            if p.ep.is_some() && p.in_check(p.white_to_move) {
                cx.acc.count("probe_ep_target_while_in_check");
            }
        }
        // FEN re-entry: the same position given directly
        if (cx.judge.c01 || cx.judge.c05 || cx.judge.c04) && cx.maybe(rng, 1, 4) {
            if let Ok(bf) = BoardState::from_fen(&p.fen()) {
                if cx.judge.c05 && bf.zobrist_key != model_key(&p, z) {
                    cx.violate("C05", "C05/fen-loader/key-mismatch".into(), format!("from_fen({}) key {:016x} from scratch {:016x}", p.fen(), bf.zobrist_key, model_key(&p, z)), ply, &[]);
                }
                if cx.judge.c01 {
                    let s2 = generate_moves(&bf, MoveGenerationMode::AllMoves, z);
                    check_generation(cx, &bf, &p, &s2, false, ply, &[]);
                    cx.acc.count("c01_fen_reentries");
                }
            }
        }
        // successors of special successors (fields cloned from the parent leak one ply later)
        if cx.judge.c01 || cx.judge.c02 || cx.judge.c05 {
            for (m, s) in &sound {
                if is_special(&p, *m) {
                    let q = p.apply(*m);
                    let s2 = generate_moves(s, MoveGenerationMode::AllMoves, z);
                    cx.acc.evals += 1;
                    let sound2: Vec<(Mv, BoardState)> = check_generation(cx, s, &q, &s2, false, ply, &[*m]).into_iter().map(|(m, s)| (m, s.clone())).collect();
                    if cx.judge.c02 {
                        cx.acc.nontrivial.insert(fnv(q.canon_hash(), b"succ-of-special"));
                    }
                    // and one more ply below specials of specials (promotion -> castling -> ...)
                    for (m2, s2b) in &sound2 {
                        if is_special(&q, *m2) && cx.maybe(rng, 1, 3) {
                            let q2 = q.apply(*m2);
                            let s3 = generate_moves(s2b, MoveGenerationMode::AllMoves, z);
                            cx.acc.evals += 1;
                            check_generation(cx, s2b, &q2, &s3, false, ply, &[*m, *m2]);
                        }
                    }
                }
            }
        }
        if cx.judge.c02 && (prev_special || sound.iter().any(|(m, _)| is_special(&p, *m))) {
            cx.acc.nontrivial.insert(ch);
        }
        if cx.judge.c05 {
            for (m, _) in &sound {
                let cls = move_class(&p, *m);
                if (cls == "double-step" && p.ep.is_some()) || cls == "ep" || cls == "capture-promotion" || (cls == "castling" && p.ep.is_some()) || ([0u8, 7, 56, 63].contains(&m.to) && p.is_capture(*m)) {
                    cx.acc.nontrivial.insert(fnv(ch, m.uci().as_bytes()));
                }
            }
        }
        // C02 speaks of every move the engine generates: the capture-only mode's successors
        // are judged too (one level; the chains are C13's)
        if cx.judge.c02 {
            let caps = generate_moves(&b, MoveGenerationMode::CapturesOnly, z);
            let legal = p.legal_moves();
            for s in &caps {
                if let Some(d) = descriptor(s) {
                    if legal.contains(&d) {
                        cx.acc.evals += 1;
                        if let Some(diff) = diff_board(s, &p.apply(d)) {
                            cx.violate("C02", format!("C02/capture-only/successor/{}/{}", move_class(&p, d), diff_class(&diff)), format!("capture-only successor of {} by {}: {}", p.fen(), d.uci(), diff), ply, &[]);
                        }
                    }
                }
            }
        }
        // capture chains as quiescence follows them
        if cx.judge.c13 {
            let mut budget = 400u32;
            let mut path = vec![];
            capture_chain(cx, &b, &p, 6, &mut budget, ply, &mut path, p.ep.is_some(), false);
            // and from every full-move successor (quiesce is entered below ordinary moves)
            if cx.maybe(rng, 1, 3) {
                for (m, s) in &sound {
                    let q = p.apply(*m);
                    let mut budget = 60u32;
                    let mut path = vec![*m];
                    capture_chain(cx, s, &q, 4, &mut budget, ply, &mut path, q.ep.is_some(), false);
                }
            }
        }
        // ---- text applier invariants at this prefix
        if let Some(bt_ref) = &bt {
            if cx.judge.c04 {
                if let Some(d) = diff_board(bt_ref, &p) {
                    let last = if ply > 0 { move_class(&game.positions_at(ply - 1), game.moves[ply - 1]) } else { "start" };
                    cx.violate("C04", format!("C04/applier/position/{}/{}", last, diff_class(&d)), format!("after {:?} the applier holds a wrong position: {}", game.moves.iter().take(ply).map(|m| m.uci()).collect::<Vec<_>>(), d), ply, &[]);
                }
                // round trip: every generated move, printed and replayed, reproduces its successor
                for (m, s) in &sound {
                    let mut c = bt_ref.clone();
                    let text = descriptor_text(s);
                    let ok = std::panic::catch_unwind(std::panic::AssertUnwindSafe(|| verif_make_move(&mut c, &text, z)));
                    cx.acc.count("c04_round_trips");
                    if ok.is_err() {
                        cx.violate("C04", format!("C04/round-trip/panic/{}", move_class(&p, *m)), format!("replaying generated move {} on {} panicked", text, p.fen()), ply, &[*m]);
                        continue;
                    }
                    let q = p.apply(*m);
                    if let Some(d) = diff_board(&c, &q) {
                        cx.violate("C04", format!("C04/round-trip/position/{}/{}", move_class(&p, *m), diff_class(&d)), format!("generated move {} replayed as text on {} gives: {}", text, p.fen(), d), ply, &[*m]);
                    } else if diff_board(bt_ref, &p).is_none() && c.zobrist_key != s.zobrist_key && bt_ref.zobrist_key == b.zobrist_key {
                        cx.violate("C04", format!("C04/round-trip/key/{}", move_class(&p, *m)), format!("generated move {} on {}: applier key {:016x}, generator key {:016x}", text, p.fen(), c.zobrist_key, s.zobrist_key), ply, &[*m]);
                    }
                    if is_special(&p, *m) {
                        cx.acc.nontrivial.insert(fnv(ch, m.uci().as_bytes()));
                    }
                }
            }
            if cx.judge.c04 && sound.len() != succ.len() && diff_board(bt_ref, &p).is_none() {
                // successors the referee does not accept as they stand (wrong name or wrong
                // position: C01/C02's business) still fall under "printed and replayed, every
                // generated move reproduces its own successor"
                for s in &succ {
                    if sound.iter().any(|(_, t)| t.zobrist_key == s.zobrist_key && t.last_move == s.last_move && t.pawn_promotion == s.pawn_promotion) {
                        continue;
                    }
                    let text = descriptor_text(s);
                    if text.len() < 4 {
                        continue;
                    }
                    let mut c = bt_ref.clone();
                    let ok = std::panic::catch_unwind(std::panic::AssertUnwindSafe(|| verif_make_move(&mut c, &text, z)));
                    cx.acc.count("c04_round_trips_of_unsound_successors");
                    if ok.is_err() {
                        cx.violate("C04", "C04/round-trip/panic/own-successor".into(), format!("replaying generated move {} on {} panicked", text, p.fen()), ply, &[]);
                    } else if let Some(d) = diff_board(&c, &to_pos(s)) {
                        cx.violate("C04", format!("C04/round-trip/own-successor/{}", diff_class(&d)), format!("generated move printed as {} and replayed on {} does not reproduce the generator's own successor: {}", text, p.fen(), d), ply, &[]);
                    }
                }
            }
            if cx.judge.c05 {
                let mk = model_key(&p, z);
                if diff_board(bt_ref, &p).is_none() && bt_ref.zobrist_key != mk {
                    let last = if ply > 0 { move_class(&game.positions_at(ply - 1), game.moves[ply - 1]) } else { "start" };
                    cx.violate("C05", format!("C05/applier/key-mismatch/{}", last), format!("applier key at {} is {:016x}, from scratch {:016x}", p.fen(), bt_ref.zobrist_key, mk), ply, &[]);
                }
            }
        }
        if ply == game.moves.len() {
            break;
        }
        // ---- advance all producers by the game move
        let m = game.moves[ply];
        prev_special = is_special(&p, m);
        let next = p.apply(m);
        match sound.iter().find(|(d, _)| *d == m) {
            Some((_, s)) => b = s.clone(),
            None => {
                // the generator does not offer this legal move soundly (already reported): re-enter by FEN
                cx.acc.count("chain_reentered_by_fen");
                b = match BoardState::from_fen(&next.fen()) {
                    Ok(b) => b,
                    Err(_) => return,
                };
            }
        }
        if let Some(bt_mut) = &mut bt {
            let text = m.uci();
            let ok = std::panic::catch_unwind(std::panic::AssertUnwindSafe(|| verif_make_move(bt_mut, &text, z)));
            if ok.is_err() {
                if cx.judge.c04 {
                    cx.violate("C04", format!("C04/applier/panic/{}", move_class(&p, m)), format!("make_move({}) panicked on {}", text, p.fen()), ply + 1, &[]);
                }
                bt = None;
            } else {
                dt.add_board_to_draw_table(bt_mut);
            }
        }
        p = next;
    }
    // ---- whole `position` command in one go (C04 final state, C10 repetition record)
    if cx.judge.c04 || cx.judge.c10 {
        let mut full = cmd.clone();
        if !game.moves.is_empty() {
            full.push("moves".into());
            full.extend(game.moves.iter().map(|m| m.uci()));
        }
        let refs: Vec<&str> = full.iter().map(|s| s.as_str()).collect();
        let mut table = DrawTable::new();
        // the handler clears first (uci.rs `position` arm); emulate a dirty table from an earlier command
        table.table.insert(0xDEAD_BEEF, 3);
        table.clear();
        let res = std::panic::catch_unwind(std::panic::AssertUnwindSafe(|| verif_play_out_position(&refs, z, &mut table)));
        match res {
            Err(_) => {
                if cx.judge.c04 {
                    cx.violate("C04", "C04/play_out_position/panic".into(), format!("position command panicked: {}", full.join(" ")), game.moves.len(), &[]);
                }
            }
            Ok(fb) => {
                if cx.judge.c04 {
                    if let Some(d) = diff_board(&fb, &p) {
                        cx.violate("C04", format!("C04/play_out_position/final/{}", diff_class(&d)), format!("{} -> {}", full.join(" "), d), game.moves.len(), &[]);
                    }
                }
                if cx.judge.c10 {
                    check_table(cx, &table, game, "S-C");
                }
            }
        }
    }
}

/// C10(i): the repetition record equals the multiset model
pub fn check_table(cx: &mut Ctx, table: &DrawTable, game: &Game, origin: &str) {
    let z = cx.z;
    let mut model: HashMap<u64, (u32, String)> = HashMap::new();
    let mut max_count = 0;
    for p in game.positions() {
        let k = model_key(&p, z);
        let e = model.entry(k).or_insert((0, p.canon()));
        e.0 += 1;
        max_count = max_count.max(e.0);
    }
    cx.acc.evals += 1;
    if max_count >= 2 {
        cx.acc.nontrivial.insert(fnv(game.start.canon_hash(), game.moves_text().join(" ").as_bytes()));
        cx.acc.count(&format!("c10_histories_with_max_count_{}", max_count.min(9)));
    }
    let n = game.moves.len();
    for (k, (cnt, canon)) in &model {
        let got = *table.table.get(k).unwrap_or(&0) as u32;
        if got != *cnt {
            cx.violate(
                "C10",
                format!("C10/record/{}/count-{}", origin, if got < *cnt { "low" } else { "high" }),
                format!("position {} occurred {} times, record says {}", canon, cnt, got),
                n,
                &[],
            );
            return;
        }
    }
    for (k, v) in &table.table {
        if *v != 0 && !model.contains_key(k) {
            cx.violate("C10", format!("C10/record/{}/stray-entry", origin), format!("record holds key {:016x} x{} that belongs to no position of the game", k, v), n, &[]);
            return;
        }
    }
}

impl Game {
    pub fn positions_at(&self, ply: usize) -> Pos {
        let mut p = self.start.clone();
        for m in self.moves.iter().take(ply) {
            p = p.apply(*m);
        }
        p
    }
}

/// C05 sensitivity: toggling any single component of a position changes the model key
pub fn key_sensitivity(cx: &mut Ctx, p: &Pos) {
    let z = cx.z;
    let base = model_key(p, z);
    let mut variants: Vec<(String, Pos)> = vec![];
    let mut q = p.clone();
    q.white_to_move = !q.white_to_move;
    variants.push(("side".into(), q));
    for i in 0..4 {
        let mut q = p.clone();
        q.castle[i] = !q.castle[i];
        variants.push((format!("right{}", i), q));
    }
    for f in 0..8 {
        let mut q = p.clone();
        let e = r::sq(f, if p.white_to_move { 5 } else { 2 });
        q.ep = if p.ep == Some(e) { None } else { Some(e) };
        variants.push((format!("ep-file-{}", f), q));
    }
    for s in 0..64u8 {
        let mut q = p.clone();
        q.sq[s as usize] = if p.sq[s as usize] == 0 { r::KNIGHT } else { 0 };
        variants.push((format!("square-{}", r::sq_name(s)), q));
        if p.sq[s as usize] != 0 {
            let mut q = p.clone();
            q.sq[s as usize] = p.sq[s as usize] ^ r::BLACK;
            variants.push((format!("colour-{}", r::sq_name(s)), q));
        }
    }
    for (name, q) in variants {
        cx.acc.count("c05_sensitivity_toggles");
        if model_key(&q, z) == base {
            cx.violate("C05", format!("C05/insensitive/{}", name.split('-').next().unwrap_or("x")), format!("toggling {} of {} leaves the key unchanged", name, p.canon()), 0, &[]);
        }
    }
}

/// one S-C run: a generated game walked with the given judge
pub fn run(seed: u64, run: u64, tag: &str, judge: Judge, z: &ZobristHasher, max_plies: usize) -> Acc {
    let mut rng = Rng::new(crate::rng::mix(seed, tag, run));
    let mut acc = Acc::new();
    let game = if judge.c10 {
        // repetition-heavy histories
        let start = if rng.chance(1, 2) { Pos::start() } else { workload::gen_position(&mut rng) };
        let big = rng.chance(1, 8);
        let reps = rng.below(if big { 100 } else { 6 }) as usize;
        let pre = rng.below(10) as usize;
        let mut moves = workload::random_walk(&mut rng, &start, pre, workload::Bias::Tactical);
        let mid = Game { start: start.clone(), moves: moves.clone(), source: "c10" }.final_pos();
        moves.extend(workload::shuffle_game(&mut rng, &mid, reps, 3));
        Game { start, moves, source: "c10-shuffle" }
    } else {
        workload::gen_game(&mut rng, max_plies)
    };
    if run < 3 {
        acc.sample(json!({"source": game.source, "start_fen": game.start.fen(), "moves": game.moves_text()}));
    }
    acc.count(&format!("source:{}", game.source));
    {
        let mut cx = Ctx { z, judge, acc: &mut acc, game: &game, run, keys: HashMap::new(), mode: "walk", full: false, unsound: vec![] };
        walk_game(&mut cx, &mut rng);
        if judge.c05 && run % 16 == 0 {
            let p = game.final_pos();
            key_sensitivity(&mut cx, &p);
        }
    }
    acc
}

/// re-execute an S-C scenario (replay / minimisation): walk exactly this game
pub fn replay(sc: &Value, prop: &str, z: &ZobristHasher) -> Acc {
    let mut acc = Acc::new();
    let start = match Pos::from_fen(sc["start_fen"].as_str().unwrap_or("")) {
        Ok(p) => p,
        Err(_) => return acc,
    };
    let mut moves = vec![];
    for key in ["moves"] {
        if let Some(a) = sc[key].as_array() {
            for m in a {
                if let Some(mv) = m.as_str().and_then(Mv::parse) {
                    moves.push(mv);
                }
            }
        }
    }
    let game = Game { start, moves, source: "replay" };
    let judge = Judge::only(prop);
    let mut rng = Rng::new(1);
    let mut cx = Ctx { z, judge, acc: &mut acc, game: &game, run: 0, keys: HashMap::new(), mode: "walk", full: true, unsound: vec![] };
    walk_game(&mut cx, &mut rng);
    acc
}

/// shrink an S-C violation: cut the game after the failing ply, then re-root it as late as
/// the same signature persists
pub fn minimise(v: &Violation, z: &ZobristHasher) -> Violation {
    let sc = &v.scenario;
    let start = match Pos::from_fen(sc["start_fen"].as_str().unwrap_or("")) {
        Ok(p) => p,
        Err(_) => return v.clone(),
    };
    let moves: Vec<Mv> = sc["moves"].as_array().map(|a| a.iter().filter_map(|m| m.as_str().and_then(Mv::parse)).collect()).unwrap_or_default();
    let game = Game { start, moves, source: "min" };
    let positions = game.positions();
    let n = game.moves.len();
    let mut best = v.clone();
    // try later and later roots
    for j in (0..=n).rev() {
        let g = Game { start: positions[j].clone(), moves: game.moves[j..].to_vec(), source: "min" };
        let sc2 = json!({"start_fen": g.start.fen(), "moves": g.moves_text()});
        let acc = replay(&sc2, &v.prop, z);
        if let Some(found) = acc.violations.iter().find(|x| x.sig == v.sig) {
            best = found.clone();
            best.run = v.run;
            break;
        }
    }
    best
}
