//! C09(ii): the plan returned by parse_go_command(line).calculate_time_slice(side) against
//! the time-policy model, stated as inequalities over exact integers (no floats).
use crate::report::{Acc, Violation};
use crate::rng::{fnv, Rng};
use serde_json::json;

/// policy: returns Err(reason) if `plan` (ms) violates the statement for this configuration
pub fn policy(clock: i128, inc: i128, mtg: Option<u32>, plan: u128) -> Result<(), String> {
    let plan = plan as i128;
    // never exceeds the mover's remaining clock
    if plan > clock.max(0) {
        return Err(format!("plan {} ms exceeds the remaining clock {} ms", plan, clock));
    }
    let m = mtg.unwrap_or(30) as i128;
    if clock > 100 {
        // plan <= 0.8 * (clock - 100) / mtg, up to the half unit of rounding to whole ms:
        // plan - 1/2 <= 4 (clock - 100) / (5 m)   <=>   (2 plan - 1) * 5 m <= 8 (clock - 100)
        if (2 * plan - 1) * 5 * m > 8 * (clock - 100) {
            return Err(format!("plan {} ms exceeds 80% of (clock {} - 100) / {}", plan, clock, m));
        }
    } else if inc <= 0 && plan != 0 {
        return Err(format!("no usable clock ({}) and no increment ({}) but plan {} ms", clock, inc, plan));
    }
    Ok(())
}

fn class_of(v: i128) -> &'static str {
    match v {
        i128::MIN..=-1 => "neg",
        0 => "zero",
        1..=99 => "below-margin",
        100 => "margin",
        101..=102 => "just-above",
        103..=100_000 => "normal",
        _ => "huge",
    }
}

pub fn check_line(line: &str, acc: &mut Acc, run: u64) {
    let toks: Vec<String> = line.split_whitespace().map(|s| s.to_string()).collect();
    let refs: Vec<&str> = toks.iter().map(|s| s.as_str()).collect();
    let gt = match std::panic::catch_unwind(|| crate::uci::verif_parse_go_command(&refs)) {
        Ok(g) => g,
        Err(_) => {
            acc.violate(Violation { prop: "C09".into(), sig: "C09/plan/parser-panic".into(), detail: format!("parse_go_command panicked on {:?}", line), scenario: json!({"family": "C09", "line": line}), run });
            return;
        }
    };
    // what the line says, read independently
    let mut want = [0i128; 4];
    let mut mtg: Option<u32> = None;
    let mut i = 1;
    while i + 1 < toks.len() {
        let idx = match toks[i].as_str() {
            "wtime" => Some(0),
            "btime" => Some(1),
            "winc" => Some(2),
            "binc" => Some(3),
            _ => None,
        };
        if let Some(k) = idx {
            if let Ok(v) = toks[i + 1].parse::<i128>() {
                want[k] = v;
                i += 1;
            }
        } else if toks[i] == "movestogo" {
            if let Ok(v) = toks[i + 1].parse::<u32>() {
                mtg = Some(v);
                i += 1;
            }
        }
        i += 1;
    }
    for white in [true, false] {
        acc.evals += 1;
        let side = if white { crate::board::PieceColor::White } else { crate::board::PieceColor::Black };
        let plan = gt.calculate_time_slice(side);
        let (clock, inc) = if white { (want[0], want[2]) } else { (want[1], want[3]) };
        acc.nontrivial.insert(fnv(0, format!("{}|{}|{:?}|{}", class_of(clock), class_of(inc), mtg.map(|m| m.min(50)), white).as_bytes()));
        if let Err(why) = policy(clock, inc, mtg, plan) {
            let sig = format!(
                "C09/plan/{}",
                if plan as i128 > clock.max(0) {
                    if clock <= 100 { "exceeds-clock/increment-branch" } else { "exceeds-clock" }
                } else if clock > 100 {
                    "exceeds-80-percent-share"
                } else {
                    "nonzero-without-clock-or-increment"
                }
            );
            acc.violate(Violation { prop: "C09".into(), sig, detail: format!("{} ({} to move): {}", line, if white { "white" } else { "black" }, why), scenario: json!({"family": "C09", "line": line}), run });
        }
        // the other side's clock and increment must not matter
        let mut other = toks.clone();
        let (oc, oi) = if white { ("btime", "binc") } else { ("wtime", "winc") };
        let mut changed = false;
        let mut k = 1;
        while k + 1 < other.len() {
            if other[k] == oc || other[k] == oi {
                other[k + 1] = "777777".into();
                changed = true;
                k += 1;
            }
            k += 1;
        }
        if changed {
            let r2: Vec<&str> = other.iter().map(|s| s.as_str()).collect();
            if let Ok(g2) = std::panic::catch_unwind(|| crate::uci::verif_parse_go_command(&r2)) {
                let p2 = g2.calculate_time_slice(side);
                if p2 != plan {
                    acc.violate(Violation { prop: "C09".into(), sig: "C09/plan/depends-on-other-side".into(), detail: format!("{}: plan for {} changes from {} to {} when only the opponent's clock/increment change", line, if white { "white" } else { "black" }, plan, p2), scenario: json!({"family": "C09", "line": line}), run });
                }
            }
        }
    }
}

const VALUES: &[i128] = &[-1_000_000, -1000, -1, 0, 1, 50, 99, 100, 101, 102, 103, 150, 1000, 12345, 60_000, 300_000, 3_600_000, 1_000_000_000, 1_000_000_000_000, 1_000_000_000_000_000];
const MTGS: &[Option<u32>] = &[None, Some(1), Some(2), Some(30), Some(40), Some(1_000_000)];

pub fn sweep(seed: u64, tier: &str) -> Acc {
    let mut acc = Acc::new();
    let mut rng = Rng::new(crate::rng::mix(seed, "C09-sweep", 0));
    // systematic part: mover's clock x mover's inc x mtg (other side random)
    for &clock in VALUES {
        for &inc in VALUES {
            for &mtg in MTGS {
                let oc = *rng.pick(VALUES);
                let oi = *rng.pick(VALUES);
                let mut line = format!("go wtime {} btime {} winc {} binc {}", clock, oc, inc, oi);
                if let Some(m) = mtg {
                    line.push_str(&format!(" movestogo {}", m));
                }
                check_line(&line, &mut acc, 0);
                if let Some(m) = mtg {
                    // the same with movestogo announced first, and in the middle
                    check_line(&format!("go movestogo {} wtime {} btime {} winc {} binc {}", m, clock, oc, inc, oi), &mut acc, 0);
                    check_line(&format!("go binc {} btime {} movestogo {} winc {} wtime {}", oi, oc, m, inc, clock), &mut acc, 0);
                }
                let mut line = format!("go btime {} wtime {} binc {} winc {}", clock, oc, inc, oi);
                if let Some(m) = mtg {
                    line.push_str(&format!(" movestogo {}", m));
                }
                check_line(&line, &mut acc, 0);
            }
        }
    }
    // random part around the margin, with partial keyword sets and unknown tokens
    let n = if tier == "quick" { 20_000 } else { 400_000 };
    for r in 0..n {
        let mut parts = vec!["go".to_string()];
        for kw in ["wtime", "btime", "winc", "binc"] {
            if rng.chance(3, 4) {
                let v = match rng.below(4) {
                    0 => *rng.pick(VALUES),
                    1 => rng.range(90, 112) as i128,
                    2 => rng.range(0, 5000) as i128,
                    _ => rng.range(-200, 400_000) as i128,
                };
                parts.push(kw.into());
                parts.push(v.to_string());
            }
        }
        if rng.chance(1, 2) {
            parts.push("movestogo".into());
            parts.push(rng.range(1, 60).to_string());
        }
        // UCI does not fix the order of the parameters: half of the lines have their pairs shuffled
        if rng.chance(1, 2) {
            let mut pairs: Vec<(String, String)> = parts[1..].chunks(2).map(|c| (c[0].clone(), c[1].clone())).collect();
            for i in (1..pairs.len()).rev() {
                let j = rng.below(i as u64 + 1) as usize;
                pairs.swap(i, j);
            }
            parts.truncate(1);
            for (k, v) in pairs {
                parts.push(k);
                parts.push(v);
            }
            acc.count("c09_lines_with_shuffled_parameter_order");
        }
        if rng.chance(1, 8) {
            parts.insert(1, "infinite".into());
        }
        check_line(&parts.join(" "), &mut acc, r as u64);
    }
    acc.sample(json!({"config_sweep_example": "go wtime 101 btime 300000 winc 0 binc 0 movestogo 40", "values": VALUES.iter().map(|v| v.to_string()).collect::<Vec<_>>()}));
    acc
}
