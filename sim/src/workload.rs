//! Workload library shared by all scenario families: referee-legal games and positions.
//! Sources (equal shares unless a check asks otherwise):
//!  (a) referee-random legal games (uniform, or biased toward captures, checks, castling,
//!      double steps after double steps, promotions, corner moves) from the start position
//!      and curated FENs;
//!  (b) synthesised legal positions (kings first, then random pieces, rights / ep only where
//!      the legality predicate allows);
//!  (c) parametrised rule templates (castling next to each kind of attacker, en-passant
//!      pins, promotions in and out of check, repetition shuffles);
//!  (d) every start is extended by a short referee walk so inherited flags are live.
use crate::referee::*;
use crate::rng::Rng;

#[derive(Clone, Debug)]
pub struct Game {
    pub start: Pos,
    pub moves: Vec<Mv>,
    pub source: &'static str,
}

impl Game {
    pub fn positions(&self) -> Vec<Pos> {
        let mut v = vec![self.start.clone()];
        let mut p = self.start.clone();
        for m in &self.moves {
            p = p.apply(*m);
            v.push(p.clone());
        }
        v
    }
    pub fn final_pos(&self) -> Pos {
        let mut p = self.start.clone();
        for m in &self.moves {
            p = p.apply(*m);
        }
        p
    }
    pub fn moves_text(&self) -> Vec<String> {
        self.moves.iter().map(|m| m.uci()).collect()
    }
}

pub const CURATED: &[&str] = &[
    START_FEN,
    "r3k2r/p1ppqpb1/bn2pnp1/3PN3/1p2P3/2N2Q1p/PPPBBPPP/R3K2R w KQkq - 0 1",
    "8/2p5/3p4/KP5r/1R3p1k/8/4P1P1/8 w - - 0 1",
    "r3k2r/Pppp1ppp/1b3nbN/nP6/BBP1P3/q4N2/Pp1P2PP/R2Q1RK1 w kq - 0 1",
    "r2q1rk1/pP1p2pp/Q4n2/bbp1p3/Np6/1B3NBn/pPPP1PPP/R3K2R b KQ - 0 1",
    "rnbq1k1r/pp1Pbppp/2p5/8/2B5/8/PPP1NnPP/RNBQK2R w KQ - 1 8",
    "r4rk1/1pp1qppp/p1np1n2/2b1p1B1/2B1P1b1/P1NP1N2/1PP1QPPP/R4RK1 w - - 0 10",
    // opening tabiyas
    "r1bqkbnr/pppp1ppp/2n5/4p3/4P3/5N2/PPPP1PPP/RNBQKB1R w KQkq - 2 3",
    "rnbqkb1r/pp2pppp/3p1n2/8/3NP3/2N5/PPP2PPP/R1BQKB1R b KQkq - 2 5",
    "rnbqk2r/ppp1ppbp/3p1np1/8/2PPP3/2N5/PP3PPP/R1BQKBNR w KQkq - 0 5",
    "r1bqk2r/pppp1ppp/2n2n2/2b1p3/2B1P3/2N2N2/PPPP1PPP/R1BQK2R w KQkq - 6 5",
    "rnbqkbnr/ppp1pppp/8/3p4/4P3/8/PPPP1PPP/RNBQKBNR w KQkq d6 0 2",
    "rnbqkbnr/pp1ppppp/8/2p5/4P3/8/PPPP1PPP/RNBQKBNR w KQkq c6 0 2",
    // all rights, open files
    "r3k2r/8/8/8/8/8/8/R3K2R w KQkq - 0 1",
    "r3k2r/8/8/8/8/8/8/R3K2R b KQkq - 0 1",
    "r3k2r/pppppppp/8/8/8/8/PPPPPPPP/R3K2R w KQkq - 0 1",
    "r3k2r/1pp2pp1/8/8/8/8/1PP2PP1/R3K2R b KQkq - 0 1",
    "r3k2r/p6p/8/1b4B1/1B4b1/8/P6P/R3K2R w KQkq - 0 1",
    "r3k2r/8/3n1n2/8/8/3N1N2/8/R3K2R w KQkq - 0 1",
    // rook, pawn, queen endings
    "8/5k2/8/8/8/8/4R3/4K3 w - - 0 1",
    "8/8/4k3/8/8/4K3/4P3/8 w - - 0 1",
    "8/8/8/4k3/8/8/1Q6/4K3 b - - 0 1",
    "8/pp3k2/8/8/8/8/PP3K2/8 w - - 0 1",
    "6k1/5ppp/8/8/8/8/5PPP/R5K1 w - - 0 1",
    "8/P7/8/8/8/8/p7/k1K5 w - - 0 1",
    "4k3/PPPPPPPP/8/8/8/8/pppppppp/4K3 w - - 0 1",
    "r3k2r/PPP3PP/8/8/8/8/ppp3pp/R3K2R w KQkq - 0 1",
    "rn2k1nr/1P4P1/8/8/8/8/1p4p1/RN2K1NR b KQkq - 0 1",
    "8/2P5/8/8/8/5k2/2p5/1R3K2 b - - 0 1",
    // en passant rich
    "4k3/8/8/2pPp3/2PpP3/8/8/4K3 w - c6 0 1",
    "4k3/pppppppp/8/PPPPPPPP/pppppppp/8/PPPPPPPP/4K3 b - - 0 1",
    "4k3/1p1p1p1p/8/P1P1P1P1/p1p1p1p1/8/1P1P1P1P/4K3 w - - 0 1",
    "8/8/3k4/8/2pPp3/8/8/4K3 b - d3 0 1",
    // the two known positions with 218 legal moves, and walls of promoting pawns (14 pawn moves = 56 + successors)
    "R6R/3Q4/1Q4Q1/4Q3/2Q4Q/Q4Q2/pp1Q4/kBNN1KB1 w - - 0 1",
    "3Q4/1Q4Q1/4Q3/2Q4R/Q4Q2/3Q4/1Q4Rp/1K1BBNNk w - - 0 1",
    "nnnnnnnn/PPPPPPPP/8/8/8/8/8/K6k w - - 0 1",
    "k6K/8/8/8/8/8/pppppppp/NNNNNNNN b - - 0 1",
    "1n1n1b2/P1P1P2P/5K1k/8/6P1/8/8/8 w - - 0 1",
    // heavy pieces, kings on the rim
    "k7/8/8/4QQQ1/8/8/8/7K w - - 0 1",
    "7k/6q1/8/8/8/8/1Q6/K7 w - - 0 1",
    "K7/8/8/8/8/8/4qq1q/7k b - - 0 1",
    "2k5/8/8/8/8/8/8/R3K2R w KQ - 0 1",
    "r3k2r/8/8/8/8/8/8/2K5 b kq - 0 1",
    "4k2r/6K1/8/8/8/8/8/8 b k - 0 1",
    "r3k3/1K6/8/8/8/8/8/8 b q - 0 1",
];

pub fn mirror_sq(s: u8) -> u8 {
    sq(file_of(s), 7 - rank_of(s))
}

/// colour-mirrored twin: ranks flipped, colours and side to move swapped
pub fn mirror(p: &Pos) -> Pos {
    let mut m = Pos::empty();
    for s in 0..64u8 {
        let pc = p.sq[s as usize];
        if pc != 0 {
            m.sq[mirror_sq(s) as usize] = pc ^ BLACK;
        }
    }
    m.white_to_move = !p.white_to_move;
    m.castle = [p.castle[2], p.castle[3], p.castle[0], p.castle[1]];
    m.ep = p.ep.map(mirror_sq);
    m.halfmove = p.halfmove;
    m.fullmove = p.fullmove;
    m
}

#[derive(Clone, Copy, PartialEq)]
pub enum Bias {
    Uniform,
    Tactical,
    Quiet,
}

/// pick one legal move; `prev_double` says whether the previous move was a double step
pub fn choose_move(rng: &mut Rng, p: &Pos, ms: &[Mv], bias: Bias, prev_double: bool) -> Mv {
    if bias == Bias::Uniform || ms.len() == 1 {
        return *rng.pick(ms);
    }
    let mut w: Vec<u64> = Vec::with_capacity(ms.len());
    for m in ms {
        let pc = p.sq[m.from as usize];
        let mut x: u64 = 4;
        if bias == Bias::Quiet {
            if p.is_capture(*m) || kind(pc) == PAWN {
                x = 1;
            } else {
                x = 8;
            }
            w.push(x);
            continue;
        }
        if p.is_capture(*m) {
            x *= 3;
        }
        if p.is_ep_capture(*m) {
            x *= 12;
        }
        if p.is_castling(*m) {
            x *= 10;
        }
        if m.promo != 0 {
            x *= 4;
        }
        if kind(pc) == PAWN && (rank_of(m.to) - rank_of(m.from)).abs() == 2 {
            x *= if prev_double { 8 } else { 2 };
        }
        if [0u8, 7, 56, 63].contains(&m.from) || [0u8, 7, 56, 63].contains(&m.to) {
            x *= 3;
        }
        if kind(pc) == PAWN && (rank_of(m.to) == 6 || rank_of(m.to) == 1) {
            x *= 3;
        }
        w.push(x);
    }
    // checks are worth a look too, but computing them for every move is dear: sample
    let total: u64 = w.iter().sum();
    let mut t = rng.below(total);
    for (i, x) in w.iter().enumerate() {
        if t < *x {
            return ms[i];
        }
        t -= *x;
    }
    ms[ms.len() - 1]
}

pub fn random_walk(rng: &mut Rng, start: &Pos, plies: usize, bias: Bias) -> Vec<Mv> {
    let mut p = start.clone();
    let mut out = vec![];
    let mut prev_double = false;
    for _ in 0..plies {
        let ms = p.legal_moves();
        if ms.is_empty() {
            break;
        }
        let m = choose_move(rng, &p, &ms, bias, prev_double);
        prev_double = kind(p.sq[m.from as usize]) == PAWN && (rank_of(m.to) - rank_of(m.from)).abs() == 2;
        p = p.apply(m);
        out.push(m);
    }
    out
}

/// (b) synthesised legal position
pub fn synth_position(rng: &mut Rng) -> Pos {
    loop {
        let mut p = Pos::empty();
        let wk = rng.below(64) as u8;
        let bk = rng.below(64) as u8;
        if wk == bk || ((file_of(wk) - file_of(bk)).abs() <= 1 && (rank_of(wk) - rank_of(bk)).abs() <= 1) {
            continue;
        }
        // bias kings home so that rights are possible
        let (wk, bk) = match rng.below(4) {
            0 => (4u8, 60u8),
            1 => (4u8, bk),
            2 => (wk, 60u8),
            _ => (wk, bk),
        };
        if wk == bk || ((file_of(wk) - file_of(bk)).abs() <= 1 && (rank_of(wk) - rank_of(bk)).abs() <= 1) {
            continue;
        }
        p.sq[wk as usize] = KING;
        p.sq[bk as usize] = KING | BLACK;
        let n = rng.below(15);
        for _ in 0..n {
            let s = rng.below(64) as u8;
            if p.sq[s as usize] != 0 {
                continue;
            }
            let k = *rng.pick(&[PAWN, PAWN, PAWN, KNIGHT, BISHOP, ROOK, ROOK, QUEEN]);
            if k == PAWN && (rank_of(s) == 0 || rank_of(s) == 7) {
                continue;
            }
            let col = if rng.chance(1, 2) { 0 } else { BLACK };
            p.sq[s as usize] = k | col;
        }
        // rooks on corners more often when the king is home
        for (ks, rs, r) in [(4u8, 7u8, ROOK), (4, 0, ROOK), (60, 63, ROOK | BLACK), (60, 56, ROOK | BLACK)] {
            if p.sq[ks as usize] == (KING | (r & BLACK)) && p.sq[rs as usize] == 0 && rng.chance(1, 2) {
                p.sq[rs as usize] = r;
            }
        }
        p.white_to_move = rng.chance(1, 2);
        if p.sq[4] == KING {
            if p.sq[7] == ROOK && rng.chance(3, 4) {
                p.castle[0] = true;
            }
            if p.sq[0] == ROOK && rng.chance(3, 4) {
                p.castle[1] = true;
            }
        }
        if p.sq[60] == (KING | BLACK) {
            if p.sq[63] == (ROOK | BLACK) && rng.chance(3, 4) {
                p.castle[2] = true;
            }
            if p.sq[56] == (ROOK | BLACK) && rng.chance(3, 4) {
                p.castle[3] = true;
            }
        }
        // ep where allowed
        if rng.chance(1, 3) {
            let mut cands = vec![];
            for f in 0..8 {
                let e = if p.white_to_move { sq(f, 5) } else { sq(f, 2) };
                let mut q = p.clone();
                q.ep = Some(e);
                if q.is_legal_position() {
                    cands.push(e);
                }
            }
            if !cands.is_empty() {
                p.ep = Some(*rng.pick(&cands));
            }
        }
        p.halfmove = rng.below(50) as u32;
        p.fullmove = 1 + rng.below(80) as u32;
        if p.is_legal_position() {
            return p;
        }
    }
}

fn put(p: &mut Pos, name: &str, piece: u8) -> bool {
    let s = parse_sq(name).unwrap();
    if p.sq[s as usize] != 0 {
        return false;
    }
    p.sq[s as usize] = piece;
    true
}

/// (c) castling next to attackers. Returns a legal position with white to move and white
/// castling rights; callers mirror it for black.
pub fn template_castling(rng: &mut Rng) -> Pos {
    loop {
        let mut p = Pos::empty();
        p.sq[4] = KING;
        let both = rng.below(3);
        if both != 1 {
            p.sq[7] = ROOK;
            p.castle[0] = true;
        }
        if both != 0 {
            p.sq[0] = ROOK;
            p.castle[1] = true;
        }
        // the attacker: enemy king close to the castling squares half of the time
        let akind = *rng.pick(&[KING, KING, KING, KNIGHT, PAWN, BISHOP, ROOK, QUEEN]);
        let near: Vec<u8> = (0..64u8).filter(|s| rank_of(*s) <= 3).collect();
        let far: Vec<u8> = (0..64u8).collect();
        let asq = if rng.chance(3, 4) { *rng.pick(&near) } else { *rng.pick(&far) };
        if p.sq[asq as usize] != 0 {
            continue;
        }
        if akind == PAWN && (rank_of(asq) == 0 || rank_of(asq) == 7) {
            continue;
        }
        p.sq[asq as usize] = akind | BLACK;
        if akind != KING {
            // black king somewhere
            let ks = rng.below(64) as u8;
            if p.sq[ks as usize] != 0 {
                continue;
            }
            p.sq[ks as usize] = KING | BLACK;
        }
        // fillers
        for _ in 0..rng.below(6) {
            let s = rng.below(64) as u8;
            if p.sq[s as usize] != 0 {
                continue;
            }
            let k = *rng.pick(&[PAWN, KNIGHT, BISHOP, ROOK, QUEEN]);
            if k == PAWN && (rank_of(s) == 0 || rank_of(s) == 7) {
                continue;
            }
            // keep the castling path mostly free
            if rank_of(s) == 0 && rng.chance(3, 4) {
                continue;
            }
            p.sq[s as usize] = k | if rng.chance(1, 2) { BLACK } else { 0 };
        }
        p.white_to_move = true;
        if p.is_legal_position() {
            return p;
        }
    }
}

/// (c) en-passant situations: white pawn on the 5th rank, black pawn has just double-stepped
/// beside it; kings and sliders biased onto the lines through the two pawns (pins, checks).
pub fn template_en_passant(rng: &mut Rng) -> Pos {
    loop {
        let mut p = Pos::empty();
        let f = rng.below(8) as i32;
        let df = if rng.chance(1, 2) { 1 } else { -1 };
        if !(0..8).contains(&(f + df)) {
            continue;
        }
        // sometimes no capturer at all (target present, nobody to take)
        let with_capturer = rng.chance(7, 8);
        if with_capturer {
            p.sq[sq(f, 4) as usize] = PAWN;
        }
        p.sq[sq(f + df, 4) as usize] = PAWN | BLACK;
        p.ep = Some(sq(f + df, 5));
        // sometimes a second capturer on the other side
        if rng.chance(1, 4) && (0..8).contains(&(f + 2 * df)) {
            p.sq[sq(f + 2 * df, 4) as usize] = PAWN;
        }
        // white king: on the 5th rank, on the pawn's file, on a diagonal through it, or anywhere
        let lines: Vec<u8> = (0..64u8)
            .filter(|s| {
                let (sf, sr) = (file_of(*s), rank_of(*s));
                sr == 4 || sf == f || (sf - f).abs() == (sr - 4).abs() || (sf - (f + df)).abs() == (sr - 4).abs()
            })
            .collect();
        let wk = if rng.chance(3, 4) { *rng.pick(&lines) } else { rng.below(64) as u8 };
        if p.sq[wk as usize] != 0 {
            continue;
        }
        p.sq[wk as usize] = KING;
        let bk = rng.below(64) as u8;
        if p.sq[bk as usize] != 0 {
            continue;
        }
        p.sq[bk as usize] = KING | BLACK;
        // enemy sliders on the lines
        for _ in 0..1 + rng.below(3) {
            let s = if rng.chance(3, 4) { *rng.pick(&lines) } else { rng.below(64) as u8 };
            if p.sq[s as usize] != 0 {
                continue;
            }
            p.sq[s as usize] = *rng.pick(&[ROOK, BISHOP, QUEEN, KNIGHT]) | BLACK;
        }
        for _ in 0..rng.below(4) {
            let s = rng.below(64) as u8;
            if p.sq[s as usize] != 0 || rank_of(s) == 0 || rank_of(s) == 7 {
                continue;
            }
            p.sq[s as usize] = *rng.pick(&[PAWN, KNIGHT, BISHOP, ROOK]) | if rng.chance(1, 2) { BLACK } else { 0 };
        }
        p.white_to_move = true;
        if p.is_legal_position() {
            return p;
        }
    }
}

/// (c) promotions: white pawns on the 7th rank, pieces on the 8th to capture (corners
/// included), often with the white king in check
pub fn template_promotion(rng: &mut Rng) -> Pos {
    loop {
        let mut p = Pos::empty();
        // now and then a wall: four to eight pawns, most of them with something to capture
        let wall = rng.chance(1, 6);
        let npawns = if wall { 4 + rng.below(5) } else { 1 + rng.below(3) };
        for _ in 0..npawns {
            let f = rng.below(8) as i32;
            p.sq[sq(f, 6) as usize] = PAWN;
        }
        for _ in 0..if wall { 4 + rng.below(5) } else { rng.below(5) } {
            let f = rng.below(8) as i32;
            if p.sq[sq(f, 7) as usize] == 0 {
                p.sq[sq(f, 7) as usize] = *rng.pick(&[ROOK, KNIGHT, BISHOP, QUEEN, ROOK]) | BLACK;
            }
        }
        let wk = rng.below(64) as u8;
        let bk = if rng.chance(1, 2) { sq(rng.below(8) as i32, 7) } else { rng.below(64) as u8 };
        if p.sq[wk as usize] != 0 || p.sq[bk as usize] != 0 || wk == bk {
            continue;
        }
        p.sq[wk as usize] = KING;
        p.sq[bk as usize] = KING | BLACK;
        if p.sq[60] == (KING | BLACK) {
            if p.sq[63] == (ROOK | BLACK) {
                p.castle[2] = rng.chance(1, 2);
            }
            if p.sq[56] == (ROOK | BLACK) {
                p.castle[3] = rng.chance(1, 2);
            }
        }
        for _ in 0..rng.below(5) {
            let s = rng.below(64) as u8;
            if p.sq[s as usize] != 0 || rank_of(s) == 0 || rank_of(s) == 7 {
                continue;
            }
            p.sq[s as usize] = *rng.pick(&[PAWN, KNIGHT, BISHOP, ROOK, QUEEN]) | if rng.chance(2, 3) { BLACK } else { 0 };
        }
        p.white_to_move = true;
        if p.is_legal_position() {
            return p;
        }
    }
}

/// (c) pawn race: a double step next to an enemy pawn, answered by a promotion, answered by a
/// promotion - state that must expire (the en-passant target) meets moves that are built by a
/// separate code path. Returns the start and the forced prefix.
pub fn template_pawn_race(rng: &mut Rng) -> (Pos, Vec<Mv>) {
    loop {
        let mut p = Pos::empty();
        // white pawn on its home rank with a black pawn beside its double-step square
        let f = rng.below(8) as i32;
        let df = if rng.chance(1, 2) { 1 } else { -1 };
        if !(0..8).contains(&(f + df)) {
            continue;
        }
        p.sq[sq(f, 1) as usize] = PAWN;
        p.sq[sq(f + df, 3) as usize] = PAWN | BLACK;
        // promotion candidates for both sides on other files
        let files: Vec<i32> = (0..8).filter(|x| *x != f && *x != f + df).collect();
        let bf = *rng.pick(&files);
        p.sq[sq(bf, 1) as usize] = PAWN | BLACK;
        let wf = *rng.pick(&files);
        if p.sq[sq(wf, 6) as usize] != 0 {
            continue;
        }
        p.sq[sq(wf, 6) as usize] = PAWN;
        // a second pair now and then
        if rng.chance(1, 3) {
            let x = *rng.pick(&files);
            if p.sq[sq(x, 6) as usize] == 0 && p.sq[sq(x, 1) as usize] == 0 {
                p.sq[sq(x, if rng.chance(1, 2) { 6 } else { 1 }) as usize] = PAWN | if rng.chance(1, 2) { BLACK } else { 0 };
            }
        }
        // things to capture while promoting
        for _ in 0..rng.below(3) {
            let x = rng.below(8) as i32;
            let (r, c) = if rng.chance(1, 2) { (7, BLACK) } else { (0, 0) };
            if p.sq[sq(x, r) as usize] == 0 {
                p.sq[sq(x, r) as usize] = *rng.pick(&[ROOK, KNIGHT, BISHOP]) | c;
            }
        }
        let wk = sq(rng.below(8) as i32, 2 + rng.below(4) as i32);
        let bk = sq(rng.below(8) as i32, 2 + rng.below(4) as i32);
        if p.sq[wk as usize] != 0 || p.sq[bk as usize] != 0 || wk == bk {
            continue;
        }
        p.sq[wk as usize] = KING;
        p.sq[bk as usize] = KING | BLACK;
        p.white_to_move = true;
        if !p.is_legal_position() {
            continue;
        }
        let mut pre = vec![];
        let mut q = p.clone();
        // double step, then promotions while there are any (pawns on the seventh keep coming)
        let ds = Mv { from: sq(f, 1), to: sq(f, 3), promo: 0 };
        if !q.legal_moves().contains(&ds) {
            continue;
        }
        q = q.apply(ds);
        pre.push(ds);
        for _ in 0..2 + rng.below(2) {
            let promos: Vec<Mv> = q.legal_moves().into_iter().filter(|m| m.promo != 0).collect();
            if promos.is_empty() {
                break;
            }
            let m = *rng.pick(&promos);
            q = q.apply(m);
            pre.push(m);
        }
        if pre.len() < 3 {
            continue;
        }
        return (p, pre);
    }
}

/// Positions in which the only legal moves are of a special kind, with the way they were reached
/// where that matters: `pre` + `mv` (a double step) leads to `pos`.
#[derive(Clone, Debug)]
pub struct ForcedSpecial {
    pub pre: Option<(Pos, Mv)>,
    pub pos: Pos,
    pub kind: &'static str,
}

/// (found once per process with a fixed seed, so every run and every replay sees the same pool)
pub fn forced_special_pool() -> &'static Vec<ForcedSpecial> {
    static POOL: std::sync::OnceLock<Vec<ForcedSpecial>> = std::sync::OnceLock::new();
    POOL.get_or_init(|| {
        let mut rng = Rng::new(0x5EC1A1);
        let mut v: Vec<ForcedSpecial> = vec![];
        let mut n_check = 0;
        let mut n_quiet = 0;
        let mut n_promo = 0;
        let mut tries = 0;
        // (1) the only legal move is an en-passant capture, of a checking pawn or of a quiet one
        while (n_check < 24 || n_quiet < 12) && tries < 400_000 {
            tries += 1;
            let mut p = Pos::empty();
            let f = 1 + rng.below(6) as i32;
            let df = if rng.chance(1, 2) { 1 } else { -1 };
            p.sq[sq(f, 4) as usize] = PAWN; // the capturer
            p.sq[sq(f + df, 6) as usize] = PAWN | BLACK; // about to double-step
            let want_check = n_check < 24 && (n_quiet >= 12 || rng.chance(2, 3));
            let wk = if want_check {
                // attacked by the pawn once it stands on (f+df, 4)
                let side = if rng.chance(1, 2) { 1 } else { -1 };
                if !(0..8).contains(&(f + df + side)) {
                    continue;
                }
                sq(f + df + side, 3)
            } else {
                sq(rng.below(8) as i32, rng.below(8) as i32)
            };
            if p.sq[wk as usize] != 0 {
                continue;
            }
            p.sq[wk as usize] = KING;
            let bk = sq(rng.below(8) as i32, 4 + rng.below(4) as i32);
            if p.sq[bk as usize] != 0 {
                continue;
            }
            p.sq[bk as usize] = KING | BLACK;
            for _ in 0..2 + rng.below(4) {
                let s = rng.below(64) as u8;
                if p.sq[s as usize] == 0 {
                    p.sq[s as usize] = *rng.pick(&[ROOK, ROOK, QUEEN, KNIGHT, BISHOP]) | BLACK;
                }
            }
            if !want_check {
                // block the capturer's own advance so that en passant can be the only move
                if p.sq[sq(f, 5) as usize] == 0 {
                    p.sq[sq(f, 5) as usize] = *rng.pick(&[PAWN, KNIGHT, BISHOP]) | BLACK;
                }
            }
            p.white_to_move = false;
            if !p.is_legal_position() {
                continue;
            }
            let ds = Mv { from: sq(f + df, 6), to: sq(f + df, 4), promo: 0 };
            if !p.legal_moves().contains(&ds) {
                continue;
            }
            let q = p.apply(ds);
            let ms = q.legal_moves();
            if ms.len() == 1 && q.is_ep_capture(ms[0]) {
                let checking = q.in_check(true);
                if checking && n_check < 24 {
                    n_check += 1;
                    v.push(ForcedSpecial { pre: Some((p, ds)), pos: q, kind: "only-move-ep-of-checking-pawn" });
                } else if !checking && n_quiet < 12 {
                    n_quiet += 1;
                    v.push(ForcedSpecial { pre: Some((p, ds)), pos: q, kind: "only-move-ep" });
                }
            }
        }
        // (2) every legal move is a promotion
        tries = 0;
        while n_promo < 16 && tries < 200_000 {
            tries += 1;
            let p = template_promotion(&mut rng);
            let ms = p.legal_moves();
            if !ms.is_empty() && ms.iter().all(|m| m.promo != 0) {
                n_promo += 1;
                v.push(ForcedSpecial { pre: None, pos: p, kind: "only-moves-promotions" });
            }
        }
        // colour-mirrored twins
        let twins: Vec<ForcedSpecial> = v
            .iter()
            .map(|x| ForcedSpecial {
                pre: x.pre.as_ref().map(|(p, m)| (mirror(p), Mv { from: mirror_sq(m.from), to: mirror_sq(m.to), promo: m.promo })),
                pos: mirror(&x.pos),
                kind: x.kind,
            })
            .collect();
        v.extend(twins);
        v
    })
}

/// (c) extreme but legal material: one side with a promoted army (up to nine queens, up to ten
/// rooks / bishops / knights, never more than fifteen men besides the king and never more
/// promoted pieces than pawns are missing), the other with a king and a few men, on an open
/// board: move lists of 100-218 entries, dozens of captures, pieces of one kind beyond any
/// "reasonable" fixed-size table.
pub fn template_heavy(rng: &mut Rng) -> Pos {
    loop {
        let mut p = Pos::empty();
        let wk = rng.below(64) as u8;
        let bk = rng.below(64) as u8;
        if wk == bk || ((file_of(wk) - file_of(bk)).abs() <= 1 && (rank_of(wk) - rank_of(bk)).abs() <= 1) {
            continue;
        }
        p.sq[wk as usize] = KING;
        p.sq[bk as usize] = KING | BLACK;
        // white: originals (Q, 2R, 2B, 2N) plus up to eight promoted pieces
        let (mut q, mut r, mut b, mut n) = (1u32, 2u32, 2u32, 2u32);
        let promoted = 2 + rng.below(7) as u32;
        let favourite = rng.below(5);
        for _ in 0..promoted {
            match if rng.chance(2, 3) { favourite } else { rng.below(4) } {
                0 | 4 => q += 1,
                1 => r += 1,
                2 => b += 1,
                _ => n += 1,
            }
        }
        // sometimes fewer of the other kinds (they were captured)
        let drop = |x: u32, rng: &mut Rng| if rng.chance(1, 2) { rng.below(x as u64 + 1) as u32 } else { x };
        if favourite != 0 && favourite != 4 {
            q = drop(q, rng);
        }
        if favourite != 1 {
            r = drop(r, rng);
        }
        if favourite != 2 {
            b = drop(b, rng);
        }
        if favourite != 3 {
            n = drop(n, rng);
        }
        let mut men = vec![];
        men.extend(std::iter::repeat(QUEEN).take(q as usize));
        men.extend(std::iter::repeat(ROOK).take(r as usize));
        men.extend(std::iter::repeat(BISHOP).take(b as usize));
        men.extend(std::iter::repeat(KNIGHT).take(n as usize));
        let pawns_left = 8 - promoted;
        for _ in 0..rng.below(pawns_left as u64 + 1) {
            men.push(PAWN);
        }
        for pc in men {
            for _ in 0..8 {
                let s = rng.below(64) as u8;
                if p.sq[s as usize] == 0 && !(pc == PAWN && (rank_of(s) == 0 || rank_of(s) == 7)) {
                    p.sq[s as usize] = pc;
                    break;
                }
            }
        }
        // black: a few men, often a pawn shield
        for _ in 0..rng.below(6) {
            let s = rng.below(64) as u8;
            let pc = *rng.pick(&[PAWN, PAWN, PAWN, KNIGHT, BISHOP, ROOK]);
            if p.sq[s as usize] == 0 && !(pc == PAWN && (rank_of(s) == 0 || rank_of(s) == 7)) {
                p.sq[s as usize] = pc | BLACK;
            }
        }
        p.white_to_move = rng.chance(3, 4);
        if !p.is_legal_position() {
            continue;
        }
        return if rng.chance(1, 2) { mirror(&p) } else { p };
    }
}

pub fn is_castle_lookalike(p: &Pos, m: Mv) -> bool {
    let k = kind(p.sq[m.from as usize]);
    let pairs = [(4u8, 6u8), (4, 2), (60, 62), (60, 58)];
    k != KING && k != PAWN && pairs.iter().any(|(a, b)| (m.from == *a && m.to == *b) || (m.from == *b && m.to == *a))
}

/// (c) a rook or queen standing on e1/e8 (or g1/c1/g8/c8) with the castling-looking square
/// free, kings elsewhere
pub fn template_castle_lookalike(rng: &mut Rng) -> Pos {
    loop {
        let mut p = Pos::empty();
        let white = rng.chance(1, 2);
        let rank = if white { 0 } else { 7 };
        let col = if white { 0 } else { BLACK };
        let on_e = rng.chance(2, 3);
        let other = if rng.chance(1, 2) { 6 } else { 2 };
        let piece_sq = if on_e { sq(4, rank) } else { sq(other, rank) };
        p.sq[piece_sq as usize] = *rng.pick(&[ROOK, ROOK, QUEEN]) | col;
        let wk = rng.below(64) as u8;
        let bk = rng.below(64) as u8;
        if p.sq[wk as usize] != 0 || p.sq[bk as usize] != 0 || wk == bk {
            continue;
        }
        // keep the mover's king off the e-file home square and off the lookalike path
        if rank_of(if white { wk } else { bk }) == rank {
            continue;
        }
        p.sq[wk as usize] = KING;
        p.sq[bk as usize] = KING | BLACK;
        for _ in 0..rng.below(6) {
            let s = rng.below(64) as u8;
            if p.sq[s as usize] != 0 || rank_of(s) == rank || rank_of(s) == 0 || rank_of(s) == 7 {
                continue;
            }
            p.sq[s as usize] = *rng.pick(&[PAWN, KNIGHT, BISHOP, ROOK, QUEEN]) | if rng.chance(1, 2) { BLACK } else { 0 };
        }
        p.white_to_move = if rng.chance(3, 4) { white } else { !white };
        if p.is_legal_position() && !p.is_terminal() {
            return p;
        }
    }
}

/// (c) repetition shuffle: from `start`, both sides move a piece there and back `reps`
/// times (when a reversible pair exists), interleaved with a few ordinary moves.
pub fn shuffle_game(rng: &mut Rng, start: &Pos, reps: usize, interleave: usize) -> Vec<Mv> {
    let mut p = start.clone();
    let mut out = vec![];
    let mut rounds = 0;
    while rounds < reps {
        // find a reversible quartet a, b, a', b'
        let ms = p.legal_moves();
        let mut found = None;
        let mut order: Vec<usize> = (0..ms.len()).collect();
        rng.shuffle(&mut order);
        // moves that look like castling in text (e1g1, e1c1, e8g8, e8c8 and back) but are made
        // by a rook or queen come first: every place that recognises castling by squares alone
        // is exposed by them
        order.sort_by_key(|&i| if is_castle_lookalike(&p, ms[i]) { 0 } else { 1 });
        'outer: for &i in order.iter().take(12) {
            let a = ms[i];
            if p.is_capture(a) || kind(p.sq[a.from as usize]) == PAWN || p.is_castling(a) {
                continue;
            }
            let p1 = p.apply(a);
            if p1.castle != p.castle {
                continue;
            }
            let ms1 = p1.legal_moves();
            let mut o1: Vec<usize> = (0..ms1.len()).collect();
            rng.shuffle(&mut o1);
            for &j in o1.iter().take(12) {
                let b = ms1[j];
                if p1.is_capture(b) || kind(p1.sq[b.from as usize]) == PAWN || p1.is_castling(b) {
                    continue;
                }
                let p2 = p1.apply(b);
                if p2.castle != p.castle {
                    continue;
                }
                let a2 = Mv { from: a.to, to: a.from, promo: 0 };
                if !p2.legal_moves().contains(&a2) {
                    continue;
                }
                let p3 = p2.apply(a2);
                let b2 = Mv { from: b.to, to: b.from, promo: 0 };
                if !p3.legal_moves().contains(&b2) {
                    continue;
                }
                found = Some((a, b, a2, b2));
                break 'outer;
            }
        }
        match found {
            None => break,
            Some((a, b, a2, b2)) => {
                let k = 1 + rng.below((reps - rounds) as u64) as usize;
                for _ in 0..k {
                    for m in [a, b, a2, b2] {
                        p = p.apply(m);
                        out.push(m);
                    }
                    rounds += 1;
                }
            }
        }
        if interleave > 0 {
            let k = rng.below(interleave as u64 + 1) as usize;
            let w = random_walk(rng, &p, k, Bias::Tactical);
            for m in w {
                p = p.apply(m);
                out.push(m);
            }
        }
        if p.is_terminal() {
            break;
        }
    }
    out
}

fn rng_small(rng: &mut Rng, max_plies: usize) -> usize {
    rng.below(1 + max_plies.min(8) as u64) as usize
}

/// The shared mix: a start position by source, extended by a short referee walk, then a game.
pub fn gen_game(rng: &mut Rng, max_plies: usize) -> Game {
    let src = rng.below(13);
    if src == 12 {
        let start = template_heavy(rng);
        let k = rng_small(rng, max_plies);
        let moves = random_walk(rng, &start, k, Bias::Tactical);
        return Game { start, moves, source: "tmpl-heavy" };
    }
    if src == 10 {
        // pawn race: forced prefix (double step, promotion, promotion ...), then a walk
        let (start, mut moves) = template_pawn_race(rng);
        let (start, moves) = if rng.chance(1, 2) {
            (mirror(&start), moves.iter().map(|m| Mv { from: mirror_sq(m.from), to: mirror_sq(m.to), promo: m.promo }).collect::<Vec<_>>())
        } else {
            (start, std::mem::take(&mut moves))
        };
        let mut moves = moves;
        let mut p = start.clone();
        for m in &moves {
            p = p.apply(*m);
        }
        let k = rng_small(rng, max_plies);
        let more = random_walk(rng, &p, k, Bias::Tactical);
        moves.extend(more);
        moves.truncate(max_plies.max(3));
        return Game { start, moves, source: "tmpl-pawn-race" };
    }
    if src == 11 && !forced_special_pool().is_empty() {
        // the only legal moves are special ones; reached by the double step where there is one
        let x = rng.pick(forced_special_pool()).clone();
        let (start, mut moves) = match &x.pre {
            Some((pre, m)) if rng.chance(2, 3) => (pre.clone(), vec![*m]),
            _ => (x.pos.clone(), vec![]),
        };
        let k = if rng.chance(1, 2) { 0 } else { rng_small(rng, max_plies) };
        let more = random_walk(rng, &x.pos, k, Bias::Tactical);
        moves.extend(more);
        moves.truncate(max_plies.max(1));
        return Game { start, moves, source: "forced-special" };
    }
    let (mut start, source): (Pos, &'static str) = match src {
        0 | 1 => (Pos::start(), "start"),
        2 | 3 => (Pos::from_fen(*rng.pick(CURATED)).unwrap(), "curated"),
        4 | 5 => (synth_position(rng), "synth"),
        6 => (template_castling(rng), "tmpl-castling"),
        7 => (template_en_passant(rng), "tmpl-ep"),
        8 => (template_promotion(rng), "tmpl-promotion"),
        _ => {
            if rng.chance(1, 2) {
                (template_castle_lookalike(rng), "tmpl-castle-lookalike")
            } else {
                (synth_position(rng), "synth")
            }
        }
    };
    if matches!(source, "tmpl-castling" | "tmpl-ep" | "tmpl-promotion") && rng.chance(1, 2) {
        start = mirror(&start);
    }
    // (d) pre-walk to make inherited flags live; the walked-to position becomes the start
    if rng.chance(1, 2) && !matches!(source, "tmpl-ep") {
        let k = rng.below(6) as usize;
        let pre = random_walk(rng, &start, k, Bias::Tactical);
        for m in pre {
            start = start.apply(m);
        }
    }
    let bias = match rng.below(4) {
        0 => Bias::Uniform,
        _ => Bias::Tactical,
    };
    let plies = 1 + rng.below(max_plies as u64) as usize;
    let moves = if rng.chance(1, 8) {
        {
            let k = 1 + rng.below(3) as usize;
            shuffle_game(rng, &start, k, 4)
        }
    } else {
        random_walk(rng, &start, plies, bias)
    };
    Game { start, moves, source }
}

/// position only (the final position of a generated game, or a start)
pub fn gen_position(rng: &mut Rng) -> Pos {
    let g = gen_game(rng, 30);
    if rng.chance(1, 3) {
        g.start
    } else {
        g.final_pos()
    }
}

/// positions in which the side to move has exactly one legal move (found once per process by
/// scanning generated positions with a fixed seed)
pub fn forced_move_pool() -> &'static Vec<Pos> {
    static POOL: std::sync::OnceLock<Vec<Pos>> = std::sync::OnceLock::new();
    POOL.get_or_init(|| {
        let mut rng = Rng::new(0xF0CED);
        let mut v = vec![];
        let mut tries = 0;
        while v.len() < 40 && tries < 40_000 {
            tries += 1;
            let p = gen_position(&mut rng);
            if p.legal_moves().len() == 1 {
                v.push(p);
            }
        }
        v
    })
}
