//! Violations, accumulators, parallel run driver, evidence and replay files, known findings.
use serde_json::{json, Map, Value};
use std::collections::{BTreeMap, HashSet};
use std::sync::atomic::{AtomicU64, Ordering};
use std::sync::Mutex;

#[derive(Clone, Debug)]
pub struct Violation {
    pub prop: String,
    /// property / oracle clause / structural class: the unit of de-duplication and of
    /// known-finding matching
    pub sig: String,
    pub detail: String,
    /// the scenario value: re-executing it reproduces the violation
    pub scenario: Value,
    pub run: u64,
}

#[derive(Default)]
pub struct Acc {
    pub evals: u64,
    pub distinct: HashSet<u64>,
    pub nontrivial: HashSet<u64>,
    pub counters: BTreeMap<String, u64>,
    pub violations: Vec<Violation>,
    pub samples: Vec<Value>,
    pub virtual_ns: u64,
    pub interleavings: HashSet<u64>,
}

impl Acc {
    pub fn new() -> Acc {
        Acc::default()
    }
    pub fn count(&mut self, k: &str) {
        *self.counters.entry(k.to_string()).or_insert(0) += 1;
    }
    pub fn add(&mut self, k: &str, n: u64) {
        *self.counters.entry(k.to_string()).or_insert(0) += n;
    }
    pub fn max(&mut self, k: &str, n: u64) {
        let e = self.counters.entry(format!("max:{}", k)).or_insert(0);
        if n > *e {
            *e = n;
        }
    }
    pub fn violate(&mut self, v: Violation) {
        // keep the first of each signature per accumulator
        if !self.violations.iter().any(|x| x.sig == v.sig) {
            self.violations.push(v);
        }
    }
    pub fn sample(&mut self, v: Value) {
        if self.samples.len() < 4 {
            self.samples.push(v);
        }
    }
    pub fn merge(&mut self, o: Acc) {
        self.evals += o.evals;
        self.distinct.extend(o.distinct);
        self.nontrivial.extend(o.nontrivial);
        for (k, v) in o.counters {
            if k.starts_with("max:") {
                let e = self.counters.entry(k).or_insert(0);
                if v > *e {
                    *e = v;
                }
            } else {
                *self.counters.entry(k).or_insert(0) += v;
            }
        }
        for v in o.violations {
            match self.violations.iter_mut().find(|x| x.sig == v.sig) {
                Some(x) => {
                    if v.run < x.run {
                        *x = v;
                    }
                }
                None => self.violations.push(v),
            }
        }
        for s in o.samples {
            if self.samples.len() < 6 {
                self.samples.push(s);
            }
        }
        self.virtual_ns += o.virtual_ns;
        self.interleavings.extend(o.interleavings);
    }
}

pub fn workers() -> usize {
    std::env::var("VERIF_WORKERS")
        .ok()
        .and_then(|s| s.parse().ok())
        .unwrap_or_else(|| std::thread::available_parallelism().map(|n| n.get()).unwrap_or(8).min(16))
}

/// Run `f(r)` for r in 0..n on `workers` OS threads; results are keyed by r, so the
/// outcome does not depend on how many workers pulled runs.
pub fn par_runs<T: Send>(n: u64, workers: usize, f: impl Fn(u64) -> T + Sync) -> Vec<T> {
    let next = AtomicU64::new(0);
    let out: Mutex<Vec<(u64, T)>> = Mutex::new(Vec::with_capacity(n as usize));
    std::thread::scope(|s| {
        for _ in 0..workers.max(1) {
            s.spawn(|| loop {
                let r = next.fetch_add(1, Ordering::SeqCst);
                if r >= n {
                    break;
                }
                let t = f(r);
                out.lock().unwrap().push((r, t));
            });
        }
    });
    let mut v = out.into_inner().unwrap();
    v.sort_by_key(|x| x.0);
    v.into_iter().map(|x| x.1).collect()
}

pub fn par_acc(n: u64, f: impl Fn(u64) -> Acc + Sync) -> Acc {
    let w = workers();
    // merge in chunks to bound memory
    let mut total = Acc::new();
    let chunk = 2048u64;
    let mut base = 0;
    while base < n {
        let m = chunk.min(n - base);
        let parts = par_runs(m, w, |i| f(base + i));
        for p in parts {
            total.merge(p);
        }
        base += m;
    }
    total
}

// ------------------------------------------------------------------------------------------

#[derive(Clone, Debug)]
pub struct KnownFinding {
    pub property: String,
    pub sig_prefix: String,
    pub what: String,
}

pub fn load_known(path: &str) -> Vec<KnownFinding> {
    let txt = match std::fs::read_to_string(path) {
        Ok(t) => t,
        Err(_) => return vec![],
    };
    let v: Value = match serde_json::from_str(&txt) {
        Ok(v) => v,
        Err(_) => return vec![],
    };
    let mut out = vec![];
    if let Some(arr) = v.get("findings").and_then(|x| x.as_array()) {
        for f in arr {
            out.push(KnownFinding {
                property: f["property"].as_str().unwrap_or("").to_string(),
                sig_prefix: f["signature"].as_str().unwrap_or("").to_string(),
                what: f["what"].as_str().unwrap_or("").to_string(),
            });
        }
    }
    out
}

pub struct CheckMeta<'a> {
    pub id: &'a str,
    pub tier: &'a str,
    pub seed: u64,
    pub level: &'a str,
    pub rule: &'a str,
    pub assumptions: Vec<String>,
    pub real_stub: Value,
}

/// reach probes that must have fired for a run to count: a probe stuck at zero means the
/// workload or the fault mix no longer reaches the situation the check exists for
pub fn required_probes(id: &str) -> &'static [&'static str] {
    match id {
        "C01" => &["c01_fen_reentries", "probe_castling_right_with_enemy_king_within_two_ranks", "probe_ep_target_while_in_check", "source:tmpl-castling", "source:tmpl-ep", "source:tmpl-promotion", "source:tmpl-castle-lookalike", "source:tmpl-pawn-race", "source:forced-special", "source:tmpl-heavy"],
        "C02" => &["source:tmpl-castling", "source:tmpl-ep", "source:tmpl-promotion", "source:tmpl-castle-lookalike", "source:tmpl-pawn-race", "source:forced-special"],
        "C03" => &["probe_two_or_more_sends_in_one_go", "probe_send_after_receiver_dropped", "fault_fired:stall_search", "fault_fired:oversleep_io", "fault_fired:spawn_delay", "fault_fired:pause_all", "fault_fired:stall_before_send", "probe_search_thread_returned_well_before_the_bestmove", "probe_session_with_1100_or_more_consecutive_go"],
        "C04" => &["c04_round_trips", "session_same_moves_from_a_different_start", "session_with_a_game_of_more_than_1024_plies", "session_same_fen_with_one_field_changed"],
        "C05" => &["c05_transposition_pairs", "c05_sensitivity_toggles", "session_same_moves_from_a_different_start"],
        "C07" => &["probe_expiry_before_first_completed_evaluation", "probe_expiry_at_root_acceptance_test", "positions_enumerated_exhaustively", "c07_runs_with_huge_allowance", "probe_closed_shuffle_searched_beyond_iteration_60", "probe_search_ran_to_its_own_end"],
        "C08" => &["c08_go_on_terminal_positions", "probe_first_send_after_deadline", "fault_fired:stall_search", "fault_fired:oversleep_io", "fault_fired:spawn_delay", "fault_fired:pause_all", "fault_fired:stall_before_send", "probe_search_thread_returned_well_before_the_bestmove", "probe_session_with_1100_or_more_consecutive_go"],
        "C09" => &["fault_fired:stall_search", "fault_fired:oversleep_io", "fault_fired:spawn_delay", "fault_fired:pause_all", "probe_search_thread_returned_well_before_the_bestmove"],
        "C10" => &["c10_roots_with_drawing_move_count_2", "c10_roots_with_drawing_move_count_3", "c10_histories_with_max_count_3", "session_same_moves_from_a_different_start", "c10_draw_sessions_with_a_completed_depth", "c10_roots_in_perpetual_check_with_one_legal_move"],
        "C11" => &["class:mate-in-1-available", "class:some-moves-allow-mate-in-1", "class:being-mated-in-1", "class:stalemate-one-ply-away", "c11_mate_claims_verified", "c11_mated_claims_verified", "c11_roots_with_history", "c11_minimal_material_positions", "c11_heavy_material_positions", "c11_heavy_pieces_against_a_bare_king", "c11_mate_by_castling_positions"],
        "C12" => &["c12_depth_3_judged", "c12_heavy_material_roots"],
        "C13" => &["c13_chain_len>=2_with_ep_or_last_rank"],
        "C15" => &["c15_real_binary_invocations", "fault_fired:fen_corrupt/over-long", "c15_legal_fens_with_counter_beyond_255_or_99"],
        "C16" => &["probe_kind:timed", "probe_kind:zero-slice", "probe_leftover_search_thread_outlived_its_go"],
        "C17" => &["fault_fired:eof_at_command_boundary", "fault_fired:eof_mid_line", "fault_fired:eof_after_noise_line", "fault_fired:noise_items", "fault_fired:invalid_utf8_line", "fault_fired:setoption_for_an_option_the_engine_lacks"],
        "C18" => &["probe_expiry_before_first_completed_evaluation", "probe_expiry_at_root_acceptance_test", "positions_enumerated_exhaustively", "c18_go_on_forced_move_positions", "probe_closed_shuffle_searched_beyond_iteration_60"],
        _ => &[],
    }
}

pub fn verif_root() -> String {
    std::env::var("VERIF_ROOT").unwrap_or_else(|_| "/verif".to_string())
}

/// Write the evidence file, the replay files, print the verdict lines; returns the exit code.
pub fn finish_check(meta: &CheckMeta, acc: &Acc, wall_s: f64, extra: Map<String, Value>) -> i32 {
    let root = verif_root();
    let known = load_known(&format!("{}/known_findings.json", root));
    let _ = std::fs::create_dir_all(format!("{}/evidence", root));
    let _ = std::fs::create_dir_all(format!("{}/replays", root));
    // replay files of earlier runs of this check are stale
    if let (Ok(rd), false) = (std::fs::read_dir(format!("{}/replays", root)), std::env::var("VERIF_ARITH").map(|v| v == "checked").unwrap_or(false)) {
        for e in rd.flatten() {
            let name = e.file_name().to_string_lossy().to_string();
            if name.starts_with(&format!("{}-", meta.id)) && name.ends_with(".json") {
                let _ = std::fs::remove_file(e.path());
            }
        }
    }
    // second pass of bin/check: the same check built with the arithmetic of a debug build
    // (overflow checks and debug assertions on); its results are merged into the evidence the
    // release-arithmetic pass has just written
    let checked_pass = std::env::var("VERIF_ARITH").map(|v| v == "checked").unwrap_or(false);
    let mut new_violations = 0;
    let mut known_hits = 0;
    let mut lines = vec![];
    let mut vs: Vec<&Violation> = acc.violations.iter().collect();
    vs.sort_by(|a, b| a.sig.cmp(&b.sig));
    let mut vjson = vec![];
    for v in vs {
        let is_known = known.iter().find(|k| k.property == v.prop && !k.sig_prefix.is_empty() && v.sig.starts_with(&k.sig_prefix));
        let h = crate::rng::fnv(if checked_pass { 1 } else { 0 }, v.sig.as_bytes());
        let path = format!("{}/replays/{}-{:016x}.json", root, v.prop, h);
        let mut replay = json!({
            "property": v.prop,
            "signature": v.sig,
            "detail": v.detail,
            "seed": meta.seed,
            "run": v.run,
            "scenario": v.scenario,
        });
        if checked_pass {
            // `wsim replay` hands such a file to the binary built with the same arithmetic
            replay["build"] = json!("checked");
        }
        let _ = std::fs::write(&path, serde_json::to_string_pretty(&replay).unwrap());
        match is_known {
            Some(k) => {
                known_hits += 1;
                lines.push(format!("KNOWN-FINDING: property={} {} [{}] replay={}", v.prop, k.what, v.sig, path));
            }
            None => {
                new_violations += 1;
                lines.push(format!("VIOLATION property={} replay={}", v.prop, path));
                lines.push(format!("  signature: {}", v.sig));
                lines.push(format!("  detail: {}", v.detail));
            }
        }
        vjson.push(json!({"signature": v.sig, "detail": v.detail, "replay": path, "known": is_known.is_some(), "run": v.run}));
    }
    let mut coverage = Map::new();
    coverage.insert("evaluations".into(), json!(acc.evals));
    coverage.insert("distinct_nontrivial".into(), json!(acc.nontrivial.len()));
    coverage.insert("distinct_cases".into(), json!(acc.distinct.len()));
    coverage.insert("rule".into(), json!(meta.rule));
    coverage.insert("samples".into(), Value::Array(acc.samples.clone()));
    coverage.insert("counters".into(), json!(acc.counters));
    if acc.virtual_ns > 0 {
        coverage.insert("simulated_seconds".into(), json!(acc.virtual_ns as f64 / 1e9));
    }
    if !acc.interleavings.is_empty() {
        coverage.insert("distinct_interleaving_signatures".into(), json!(acc.interleavings.len()));
    }
    if wall_s > 0.0 {
        coverage.insert("evaluations_per_hour".into(), json!((acc.evals as f64 / wall_s * 3600.0) as u64));
    }
    coverage.insert("real_vs_stub".into(), meta.real_stub.clone());
    coverage.insert("required_reach_probes".into(), json!(required_probes(meta.id)));
    coverage.insert("violation_list".into(), Value::Array(vjson));
    for (k, v) in extra {
        coverage.insert(k, v);
    }
    let ev = json!({
        "property_id": meta.id,
        "tier": meta.tier,
        "seed": meta.seed,
        "level": meta.level,
        "coverage": Value::Object(coverage),
        "assumptions": meta.assumptions,
        "wall_s": wall_s,
        "violations": new_violations,
        "known_findings_hit": known_hits,
    });
    let path = format!("{}/evidence/{}.json", root, meta.id);
    let ev = if checked_pass {
        match std::fs::read_to_string(&path).ok().and_then(|t| serde_json::from_str::<Value>(&t).ok()) {
            Some(mut first) => {
                let c = &ev["coverage"];
                first["coverage"]["checked_arithmetic_pass"] = json!({
                    "what": "the same check, same seed, harness and engine sources compiled with overflow-checks and debug-assertions on (the arithmetic of `cargo run` / `cargo test`); the first pass uses the arithmetic of the shipped release build",
                    "tier": meta.tier,
                    "evaluations": c["evaluations"],
                    "distinct_nontrivial": c["distinct_nontrivial"],
                    "simulated_seconds": c["simulated_seconds"],
                    "violation_list": c["violation_list"],
                    "violations": new_violations,
                    "known_findings_hit": known_hits,
                    "wall_s": wall_s,
                });
                first["violations"] = json!(first["violations"].as_u64().unwrap_or(0) + new_violations as u64);
                first["wall_s"] = json!(first["wall_s"].as_f64().unwrap_or(0.0) + wall_s);
                first
            }
            None => {
                eprintln!("harness error: the checked-arithmetic pass found no evidence of the first pass at {}", path);
                return 2;
            }
        }
    } else {
        ev
    };
    if let Err(e) = std::fs::write(&path, serde_json::to_string_pretty(&ev).unwrap()) {
        eprintln!("cannot write evidence {}: {}", path, e);
        return 2;
    }
    for l in &lines {
        std::println!("{}", l);
    }
    std::println!(
        "{}{} {} seed={} evaluations={} distinct_nontrivial={} violations={} known={} wall={:.1}s",
        if checked_pass { "(checked arithmetic) " } else { "" },
        meta.id,
        meta.tier,
        meta.seed,
        acc.evals,
        acc.nontrivial.len(),
        new_violations,
        known_hits,
        wall_s
    );
    if new_violations == 0 {
        let stuck: Vec<&str> = required_probes(meta.id).iter().filter(|p| acc.counters.get(**p).copied().unwrap_or(0) == 0).copied().collect();
        if !stuck.is_empty() {
            eprintln!("harness error: reach probes stuck at zero: {:?} - the workload or fault mix no longer reaches what this check exists for", stuck);
            return 2;
        }
    }
    if new_violations == 0 && (acc.nontrivial.len() < 2 || acc.evals == 0) {
        eprintln!("harness error: coverage too thin (evaluations={}, distinct_nontrivial={})", acc.evals, acc.nontrivial.len());
        return 2;
    }
    if new_violations > 0 {
        1
    } else {
        0
    }
}
