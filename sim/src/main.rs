use walleye::{checks, referee};

fn usage() -> ! {
    eprintln!("usage: wsim check <id> [--tier quick|thorough] [--seed N]\n       wsim replay <file>\n       wsim selftest [referee|determinism|fidelity]");
    std::process::exit(2)
}

fn main() {
    let args: Vec<String> = std::env::args().collect();
    if args.len() < 2 {
        usage();
    }
    match args[1].as_str() {
        "check" => {
            if args.len() < 3 {
                usage();
            }
            let id = args[2].clone();
            let mut tier = std::env::var("VERIF_TIER").unwrap_or_else(|_| "quick".into());
            let mut seed: Option<u64> = std::env::var("VERIF_SEED").ok().and_then(|s| s.parse().ok());
            let mut i = 3;
            while i < args.len() {
                match args[i].as_str() {
                    "--tier" => {
                        tier = args.get(i + 1).cloned().unwrap_or_else(|| usage());
                        i += 1;
                    }
                    "--seed" => {
                        seed = args.get(i + 1).and_then(|s| s.parse().ok());
                        i += 1;
                    }
                    _ => usage(),
                }
                i += 1;
            }
            if tier != "quick" && tier != "thorough" {
                usage();
            }
            let seed = seed.unwrap_or_else(|| checks::default_seed(&id));
            println!("VERIF_SEED={} check={} tier={}", seed, id, tier);
            if let Err(e) = referee::self_check(if tier == "quick" { 3 } else { 4 }) {
                eprintln!("harness error: referee self-check failed: {}", e);
                std::process::exit(2);
            }
            std::process::exit(checks::run_check(&id, &tier, seed));
        }
        "search" => {
            // debugging aid: run the real search on a FEN with an unlimited scripted clock
            let fen = args.get(2).cloned().unwrap_or_else(|| usage());
            let depth: u32 = args.get(3).and_then(|s| s.parse().ok()).unwrap_or(3);
            let z = walleye::zobrist::ZobristHasher::create_zobrist_hasher();
            let p = referee::Pos::from_fen(&fen).expect("fen");
            let (b, t) = walleye::sb::setup(&p, &[], &z).expect("setup");
            let r = walleye::sb::run_search(&b, &t, u64::MAX, Some(depth + 1), std::env::var("VERIF_NODE_CAP").ok().and_then(|s| s.parse().ok()).unwrap_or(5_000_000));
            for (q, l) in &r.lines {
                println!("q{} {}", q, l);
            }
            println!("queries={} nodes={} panicked={:?}", r.queries, r.nodes, r.panicked);
        }
        "replay" => {
            if args.len() < 3 {
                usage();
            }
            std::process::exit(checks::replay_file(&args[2]));
        }
        "selftest" if args.get(2).map(|s| s == "determinism").unwrap_or(false) => {
            let n: u64 = args.get(3).and_then(|s| s.parse().ok()).unwrap_or(500);
            let (digest, bad) = walleye::sa_checks::determinism(77, n);
            println!("determinism: {} scenarios x2, in-process mismatches={}, digest={:016x}", n, bad, digest);
            if bad > 0 {
                std::process::exit(2);
            }
        }
        "find-shuffles" => {
            let n: usize = args.get(2).and_then(|s| s.parse().ok()).unwrap_or(10);
            let b: usize = args.get(3).and_then(|s| s.parse().ok()).unwrap_or(2);
            let tries: u64 = args.get(4).and_then(|s| s.parse().ok()).unwrap_or(20_000_000);
            let hs: Vec<_> = (0..16u64).map(|t| std::thread::spawn(move || walleye::endgames::find_shuffles(0x5AFF1E + t, n, tries, b))).collect();
            for h in hs {
                for (fen, states, widest) in h.join().unwrap() {
                    println!("{} | states={} widest={}", fen, states, widest);
                }
            }
        }
        "gen-minimal-mates" => {
            let n: usize = args.get(2).and_then(|s| s.parse().ok()).unwrap_or(8);
            print!("{}", walleye::endgames::generate(n));
        }
        "selftest" if args.get(2).map(|s| s == "pools").unwrap_or(false) => {
            let t = std::time::Instant::now();
            let pool = walleye::workload::forced_special_pool();
            let mut kinds: std::collections::BTreeMap<&str, usize> = Default::default();
            for x in pool {
                *kinds.entry(x.kind).or_default() += 1;
            }
            println!("forced-special pool: {:?} in {:?}", kinds, t.elapsed());
            for x in pool.iter().take(3) {
                println!("  {} {}", x.kind, x.pos.fen());
            }
            println!("forced-move pool: {}", walleye::workload::forced_move_pool().len());
            if kinds.get("only-move-ep-of-checking-pawn").copied().unwrap_or(0) < 8 {
                std::process::exit(2);
            }
        }
        "selftest" if args.get(2).map(|s| s == "fidelity").unwrap_or(false) => {
            let bin = args.get(3).cloned().unwrap_or_else(|| usage());
            let n: u64 = args.get(4).and_then(|s| s.parse().ok()).unwrap_or(200);
            let (done, diff) = walleye::sa_meta::fidelity(&bin, n);
            match diff {
                None => println!("fidelity: {} timing-free scripts give identical transcripts in the simulator and in {}", done, bin),
                Some(d) => {
                    eprintln!("fidelity mismatch after {} scripts: {}", done, d);
                    std::process::exit(2);
                }
            }
        }
        "selftest" => match referee::self_check(4) {
            Ok(n) => {
                println!("referee ok, {} nodes", n);
                match walleye::endgames::self_check() {
                    Ok(k) => {
                        println!("minimal-material mate list ok, {} positions", k);
                        match walleye::endgames::shuffles_self_check() {
                            Ok(n) => println!("closed-shuffle list ok, {} positions", n),
                            Err(e) => {
                                eprintln!("closed-shuffle list: {}", e);
                                std::process::exit(2);
                            }
                        }
                    }
                    Err(e) => {
                        eprintln!("minimal-material mate list: {}", e);
                        std::process::exit(2);
                    }
                }
            }
            Err(e) => {
                eprintln!("referee self-check failed: {}", e);
                std::process::exit(2);
            }
        },
        _ => usage(),
    }
}
