fn main() {
    match walleye::referee::self_check(4) {
        Ok(n) => println!("referee ok, {} nodes", n),
        Err(e) => {
            println!("referee self-check failed: {}", e);
            std::process::exit(2);
        }
    }
}
