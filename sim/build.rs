// Emits --cfg walleye_verif (the guard) and generates the module mounts of the engine's own
// source files. The repository is /repo unless VERIF_REPO names a scratch copy (used only by
// the mutant / seed audits, which must not disturb /repo; every MANIFEST command uses /repo).
use std::io::Write;
fn main() {
    let repo = std::env::var("VERIF_REPO").unwrap_or_else(|_| "/repo".to_string());
    println!("cargo:rustc-cfg=walleye_verif");
    println!("cargo:rustc-check-cfg=cfg(walleye_verif)");
    println!("cargo:rerun-if-env-changed=VERIF_REPO");
    println!("cargo:rerun-if-changed={}/src", repo);
    println!("cargo:rerun-if-changed=build.rs");
    let out = std::path::PathBuf::from(std::env::var("OUT_DIR").unwrap()).join("mounts.rs");
    let mut f = std::fs::File::create(&out).unwrap();
    for m in ["board", "draw_table", "engine", "evaluation", "move_generation", "search", "time_control", "uci", "utils", "zobrist"] {
        writeln!(f, "#[path = \"{}/src/{}.rs\"]\npub mod {};", repo, m, m).unwrap();
        println!("cargo:rerun-if-changed={}/src/{}.rs", repo, m);
    }
}
